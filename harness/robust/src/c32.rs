//! C32: every way of producing a `Text` / `Identifier` yields a value satisfying the type's invariant, and
//! Eq / Ord / Hash depend on the string content only (static, inline and heap storage agree).
use std::{
    cmp::Ordering,
    collections::hash_map::DefaultHasher,
    ffi::{CStr, CString},
    hash::{Hash, Hasher},
    str::FromStr,
};

use aranya_policy_text::{Identifier, Text, ident, text};
use proptest::prelude::*;
use rkyv::{rancor::Error as RErr, util::AlignedVec};
use serde::{Deserialize, Serialize};
use vcommon::{CaseInfo, CheckResult, Ctx, Failure, Report, ensure, idx};

// ---- the specification, written from the statement -------------------------------------------

fn valid_text(s: &str) -> bool {
    !s.bytes().any(|b| b == 0)
}

fn valid_ident(s: &str) -> bool {
    let b = s.as_bytes();
    !b.is_empty()
        && b[0].is_ascii_alphabetic()
        && b[1..].iter().all(|c| c.is_ascii_alphanumeric() || *c == b'_')
}

fn h<T: Hash + ?Sized>(t: &T) -> u64 {
    let mut s = DefaultHasher::new();
    t.hash(&mut s);
    s.finish()
}

// ---- values stored as `&'static str` (the third representation) ---------------------------------

fn static_texts() -> Vec<Text> {
    vec![
        text!(),
        text!("a"),
        text!("hello"),
        text!("0123456789abcdefghijk"),   // 21
        text!("0123456789abcdefghijkl"),  // 22 = inline maximum
        text!("0123456789abcdefghijklm"), // 23 = first heap length
        text!("The quick brown fox jumps over the lazy dog"),
        text!("h\u{e9}llo w\u{f6}rld \u{1F600} 22b"),
        text!("tab\tnewline\nquote\""),
    ]
}

fn static_idents() -> Vec<Identifier> {
    vec![
        ident!("a"),
        ident!("Z"),
        ident!("x_1"),
        ident!("abcdefghijklmnopqrstu"),   // 21
        ident!("abcdefghijklmnopqrstuv"),  // 22
        ident!("abcdefghijklmnopqrstuvw"), // 23
        ident!("A_very_long_identifier_name_0123456789_with_more"),
    ]
}

// ---- cases ------------------------------------------------------------------------------------

#[derive(Clone, Debug, Serialize, Deserialize)]
enum Case {
    /// A string through every string-taking constructor; `other` for cross comparisons / concatenation.
    Str { s: String, other: String, split: u16 },
    /// Arbitrary bytes through every byte-taking decoder.
    Bytes { b: Vec<u8> },
    /// Arbitrary buffer accessed as an archive.
    Archive { b: Vec<u8> },
    /// Archive of an arbitrary string (may hold NUL / non-identifier content), then byte edits / front cut.
    MutArchive { s: String, edits: Vec<(u16, u8)>, content_edit: Option<(u16, u8)>, cut: u8 },
}

fn boundary_string() -> impl Strategy<Value = String> {
    // lengths 18..=27 bytes straddle MAX_INLINE = 22
    prop_oneof![
        3 => "[a-zA-Z][a-zA-Z0-9_]{17,26}",
        2 => "[ -~]{18,27}",
        1 => ("[a-z]{8,12}", "[\u{80}-\u{7ff}]{1,3}", "[a-z]{8,12}").prop_map(|(a, b, c)| format!("{a}{b}{c}")),
    ]
}

fn any_string() -> impl Strategy<Value = String> {
    let statics: Vec<String> = static_texts()
        .iter()
        .map(|t| t.as_str().to_string())
        .chain(static_idents().iter().map(|t| t.as_str().to_string()))
        .collect();
    prop_oneof![
        3 => "[a-zA-Z][a-zA-Z0-9_]{0,30}",
        2 => "[a-zA-Z0-9_]{0,12}",
        2 => boundary_string(),
        2 => prop::sample::select(statics),
        2 => ".{0,40}",
        1 => "\\PC{0,30}",
        // NUL at the start, middle, end; also next to the representation boundary
        2 => ("[a-zA-Z0-9_ ]{0,24}", "[a-zA-Z0-9_ ]{0,24}").prop_map(|(a, b)| format!("{a}\0{b}")),
        1 => Just("\0".to_string()),
        // almost identifiers
        2 => ("[a-zA-Z][a-zA-Z0-9_]{0,24}", "[-. $\u{e9}\u{0}0-9_]", "[a-zA-Z0-9_]{0,4}")
            .prop_map(|(a, b, c)| format!("{a}{b}{c}")),
        1 => ("[0-9_]", "[a-zA-Z0-9_]{0,24}").prop_map(|(a, b)| format!("{a}{b}")),
    ]
}

fn bytes_input() -> impl Strategy<Value = Vec<u8>> {
    prop_oneof![
        2 => prop::collection::vec(any::<u8>(), 0..48),
        // the raw bytes of a string (for the byte entry points of the visitor), sometimes with one byte changed
        2 => (any_string(), prop::option::of((any::<u16>(), any::<u8>()))).prop_map(|(s, e)| {
            let mut c = s.into_bytes();
            if let Some((p, v)) = e {
                if !c.is_empty() {
                    let i = idx(p, c.len());
                    c[i] = v;
                }
            }
            c
        }),
        // postcard-shaped: varint length then content, content sometimes hostile
        3 => (any_string(), prop::option::of((any::<u16>(), any::<u8>())), -2i8..3).prop_map(|(s, e, dl)| {
            let mut c = s.into_bytes();
            if let Some((p, v)) = e {
                if !c.is_empty() {
                    let i = idx(p, c.len());
                    c[i] = v;
                }
            }
            let l = (c.len() as i64 + dl as i64).max(0) as u8;
            let mut out = vec![l & 0x7f];
            out.extend(c);
            out
        }),
        // JSON-shaped
        2 => (any_string(), prop::option::of((any::<u16>(), any::<u8>()))).prop_map(|(s, e)| {
            let mut c = serde_json::to_vec(&s).unwrap();
            if let Some((p, v)) = e {
                let i = idx(p, c.len());
                c[i] = v;
            }
            c
        }),
        1 => "\"[a-z]{0,6}(\\\\u0000|\\\\u00e9|\\\\n|\\\\ud800)[a-z]{0,20}\"".prop_map(String::into_bytes),
        // CBOR-shaped text strings
        1 => any_string().prop_map(|s| {
            let mut out = Vec::new();
            ciborium::into_writer(&s, &mut out).unwrap();
            out
        }),
    ]
}

fn case() -> impl Strategy<Value = Case> {
    prop_oneof![
        6 => (any_string(), any_string(), any::<u16>()).prop_map(|(s, other, split)| Case::Str { s, other, split }),
        2 => bytes_input().prop_map(|b| Case::Bytes { b }),
        1 => prop::collection::vec(any::<u8>(), 0..64).prop_map(|b| Case::Archive { b }),
        1 => (prop::collection::vec(any::<u8>(), 0..40), prop::collection::vec(0u8..40, 8..9))
            .prop_map(|(mut b, tail)| { b.extend(tail); Case::Archive { b } }),
        3 => (
            any_string(),
            prop::collection::vec((any::<u16>(), any::<u8>()), 0..3),
            prop::option::weighted(0.7, (any::<u16>(), prop_oneof![Just(0u8), Just(0xffu8), Just(b'-'), Just(b'_'), any::<u8>()])),
            prop_oneof![4 => Just(0u8), 1 => 0u8..24],
        )
            .prop_map(|(s, edits, content_edit, cut)| Case::MutArchive { s, edits, content_edit, cut }),
    ]
}


// ---- a deserializer that presents the value through every visitor entry point ------------------

/// How the bytes reach the visitor.
#[derive(Clone, Copy, Debug, PartialEq, Eq)]
enum Feed {
    Bytes,
    BorrowedBytes,
    ByteBuf,
    Str,
    BorrowedStr,
    String,
}

const BYTE_FEEDS: [Feed; 3] = [Feed::Bytes, Feed::BorrowedBytes, Feed::ByteBuf];
const STR_FEEDS: [Feed; 3] = [Feed::Str, Feed::BorrowedStr, Feed::String];

struct Feeder<'de>(Feed, &'de [u8]);

impl<'de> serde::Deserializer<'de> for Feeder<'de> {
    type Error = serde::de::value::Error;
    fn deserialize_any<V: serde::de::Visitor<'de>>(self, v: V) -> Result<V::Value, Self::Error> {
        match self.0 {
            Feed::Bytes => {
                let tmp = self.1.to_vec();
                v.visit_bytes(&tmp)
            }
            Feed::BorrowedBytes => v.visit_borrowed_bytes(self.1),
            Feed::ByteBuf => v.visit_byte_buf(self.1.to_vec()),
            Feed::Str => {
                let tmp = std::str::from_utf8(self.1).expect("str feed needs UTF-8").to_string();
                v.visit_str(&tmp)
            }
            Feed::BorrowedStr => v.visit_borrowed_str(std::str::from_utf8(self.1).expect("str feed needs UTF-8")),
            Feed::String => v.visit_string(std::str::from_utf8(self.1).expect("str feed needs UTF-8").to_string()),
        }
    }
    serde::forward_to_deserialize_any! {
        bool i8 i16 i32 i64 i128 u8 u16 u32 u64 u128 f32 f64 char str string bytes byte_buf option unit
        unit_struct newtype_struct seq tuple tuple_struct map struct enum identifier ignored_any
    }
}

fn feed<'de, T: Deserialize<'de>>(f: Feed, b: &'de [u8]) -> Result<T, serde::de::value::Error> {
    T::deserialize(Feeder(f, b))
}

/// CBOR byte-string item (major type 2) holding `b`.
fn cbor_bytes(b: &[u8]) -> Vec<u8> {
    let mut out = Vec::new();
    ciborium::into_writer(&ciborium::Value::Bytes(b.to_vec()), &mut out).unwrap();
    out
}

// ---- oracle -----------------------------------------------------------------------------------

fn text_ok(t: &Text, how: &str) -> CheckResult {
    ensure!(valid_text(t.as_str()), "text value contains NUL", "via {how}: {:?}", t.as_str());
    Ok(())
}

fn ident_ok(t: &Identifier, how: &str) -> CheckResult {
    ensure!(
        valid_ident(t.as_str()),
        "identifier value violates [a-zA-Z][a-zA-Z0-9_]*",
        "via {how}: {:?}",
        t.as_str()
    );
    Ok(())
}

fn aligned(b: &[u8]) -> AlignedVec<16> {
    let mut v = AlignedVec::<16>::new();
    v.extend_from_slice(b);
    v
}

/// Accesses `buf` as an archived Text and as an archived Identifier; whatever is accepted must satisfy the
/// invariant, and deserializing it must give the same content. Returns what was accepted.
fn check_archive(buf: &[u8], info: &mut CaseInfo) -> Result<(Option<String>, Option<String>), Failure> {
    let buf = aligned(buf);
    let mut got_t = None;
    let mut got_i = None;
    if let Ok(a) = rkyv::access::<rkyv::Archived<Text>, RErr>(&buf) {
        let s = a.as_str().to_string();
        ensure!(valid_text(&s), "archive access accepted text with NUL", "{s:?}");
        let t: Text = rkyv::deserialize::<Text, RErr>(a)
            .map_err(|e| Failure::new("archive deserialize failed after access succeeded", e.to_string()))?;
        text_ok(&t, "rkyv deserialize")?;
        ensure!(t.as_str() == s, "archive deserialize changed content", "{s:?} -> {:?}", t.as_str());
        info.label("archive_text_accepted");
        got_t = Some(s);
    }
    if let Ok(a) = rkyv::access::<rkyv::Archived<Identifier>, RErr>(&buf) {
        let s = a.as_str().to_string();
        ensure!(valid_ident(&s), "archive access accepted a non-identifier", "{s:?}");
        let t: Identifier = rkyv::deserialize::<Identifier, RErr>(a)
            .map_err(|e| Failure::new("archive deserialize failed after access succeeded", e.to_string()))?;
        ident_ok(&t, "rkyv deserialize")?;
        let t2 = a.deserialize();
        ident_ok(&t2, "ArchivedIdentifier::deserialize")?;
        ensure!(t.as_str() == s && t2.as_str() == s, "archive deserialize changed content", "{s:?}");
        info.label("archive_ident_accepted");
        got_i = Some(s);
    }
    Ok((got_t, got_i))
}

/// All the ways to build a Text holding exactly `s` (which is valid).
fn text_routes(s: &str) -> Result<Vec<(&'static str, Text)>, Failure> {
    let mut v: Vec<(&'static str, Text)> = Vec::new();
    let e = |how: &str, e: String| Failure::new("valid text rejected", format!("via {how}: {s:?}: {e}"));
    v.push(("FromStr", Text::from_str(s).map_err(|x| e("FromStr", x.to_string()))?));
    v.push(("TryFrom<String>", Text::try_from(s.to_string()).map_err(|x| e("TryFrom<String>", x.to_string()))?));
    let js = serde_json::to_string(s).unwrap();
    v.push(("json", serde_json::from_str::<Text>(&js).map_err(|x| e("json", x.to_string()))?));
    v.push((
        "json reader",
        serde_json::from_reader::<_, Text>(js.as_bytes()).map_err(|x| e("json reader", x.to_string()))?,
    ));
    let pc = postcard::to_allocvec(s).unwrap();
    v.push(("postcard", postcard::from_bytes::<Text>(&pc).map_err(|x| e("postcard", x.to_string()))?));
    let mut cb = Vec::new();
    ciborium::into_writer(s, &mut cb).unwrap();
    v.push(("cbor", ciborium::from_reader::<Text, _>(&cb[..]).map_err(|x| e("cbor", x.to_string()))?));
    let c = CString::new(s).map_err(|x| e("CString", x.to_string()))?;
    v.push(("CStr", Text::try_from(c.as_c_str()).map_err(|x| e("CStr", x.to_string()))?));
    for f in STR_FEEDS {
        v.push(("visitor str entry", feed::<Text>(f, s.as_bytes()).map_err(|x| e(&format!("{f:?}"), x.to_string()))?));
    }
    for f in BYTE_FEEDS {
        if let Ok(t) = feed::<Text>(f, s.as_bytes()) {
            v.push(("visitor bytes entry", t));
        }
    }
    if let Ok(t) = ciborium::from_reader::<Text, _>(&cbor_bytes(s.as_bytes())[..]) {
        v.push(("cbor byte string", t));
    }
    let first = v[0].1.clone();
    let ar = rkyv::to_bytes::<RErr>(&first).map_err(|x| e("rkyv to_bytes", x.to_string()))?;
    let a = rkyv::access::<rkyv::Archived<Text>, RErr>(&ar).map_err(|x| e("rkyv access", x.to_string()))?;
    ensure!(a.as_str() == s, "archive holds different content", "{s:?} vs {:?}", a.as_str());
    v.push(("rkyv", rkyv::deserialize::<Text, RErr>(a).map_err(|x| e("rkyv deserialize", x.to_string()))?));
    v.push(("clone", first.clone()));
    if let Some(t) = static_texts().into_iter().find(|t| t.as_str() == s) {
        v.push(("static", t));
    }
    if let Ok(i) = Identifier::from_str(s) {
        v.push(("From<Identifier>", Text::from(i)));
    }
    Ok(v)
}

fn ident_routes(s: &str) -> Result<Vec<(&'static str, Identifier)>, Failure> {
    let mut v: Vec<(&'static str, Identifier)> = Vec::new();
    let e = |how: &str, e: String| Failure::new("valid identifier rejected", format!("via {how}: {s:?}: {e}"));
    v.push(("FromStr", Identifier::from_str(s).map_err(|x| e("FromStr", x.to_string()))?));
    v.push((
        "TryFrom<String>",
        Identifier::try_from(s.to_string()).map_err(|x| e("TryFrom<String>", x.to_string()))?,
    ));
    let t = Text::from_str(s).map_err(|x| e("Text", x.to_string()))?;
    v.push(("TryFrom<Text>", Identifier::try_from(t).map_err(|x| e("TryFrom<Text>", x.to_string()))?));
    let js = serde_json::to_string(s).unwrap();
    v.push(("json", serde_json::from_str::<Identifier>(&js).map_err(|x| e("json", x.to_string()))?));
    let pc = postcard::to_allocvec(s).unwrap();
    v.push(("postcard", postcard::from_bytes::<Identifier>(&pc).map_err(|x| e("postcard", x.to_string()))?));
    let mut cb = Vec::new();
    ciborium::into_writer(s, &mut cb).unwrap();
    v.push(("cbor", ciborium::from_reader::<Identifier, _>(&cb[..]).map_err(|x| e("cbor", x.to_string()))?));
    for f in STR_FEEDS {
        v.push((
            "visitor str entry",
            feed::<Identifier>(f, s.as_bytes()).map_err(|x| e(&format!("{f:?}"), x.to_string()))?,
        ));
    }
    for f in BYTE_FEEDS {
        if let Ok(t) = feed::<Identifier>(f, s.as_bytes()) {
            v.push(("visitor bytes entry", t));
        }
    }
    if let Ok(t) = ciborium::from_reader::<Identifier, _>(&cbor_bytes(s.as_bytes())[..]) {
        v.push(("cbor byte string", t));
    }
    let first = v[0].1.clone();
    let ar = rkyv::to_bytes::<RErr>(&first).map_err(|x| e("rkyv to_bytes", x.to_string()))?;
    let a = rkyv::access::<rkyv::Archived<Identifier>, RErr>(&ar).map_err(|x| e("rkyv access", x.to_string()))?;
    v.push(("rkyv", rkyv::deserialize::<Identifier, RErr>(a).map_err(|x| e("rkyv deserialize", x.to_string()))?));
    v.push(("archived.deserialize", a.deserialize()));
    if let Some(t) = static_idents().into_iter().find(|t| t.as_str() == s) {
        v.push(("static", t));
    }
    Ok(v)
}

/// Rejections: every string-taking constructor must refuse `s`.
fn text_all_reject(s: &str) -> CheckResult {
    let sig = "text constructor accepted a string with NUL";
    ensure!(Text::from_str(s).is_err(), sig, "FromStr {s:?}");
    ensure!(Text::try_from(s.to_string()).is_err(), sig, "TryFrom<String> {s:?}");
    let js = serde_json::to_string(s).unwrap();
    ensure!(serde_json::from_str::<Text>(&js).is_err(), sig, "json {s:?}");
    ensure!(serde_json::from_reader::<_, Text>(js.as_bytes()).is_err(), sig, "json reader {s:?}");
    ensure!(serde_json::from_value::<Text>(serde_json::Value::String(s.to_string())).is_err(), sig, "json value {s:?}");
    let pc = postcard::to_allocvec(s).unwrap();
    ensure!(postcard::from_bytes::<Text>(&pc).is_err(), sig, "postcard {s:?}");
    let mut cb = Vec::new();
    ciborium::into_writer(s, &mut cb).unwrap();
    ensure!(ciborium::from_reader::<Text, _>(&cb[..]).is_err(), sig, "cbor {s:?}");
    for f in STR_FEEDS.into_iter().chain(BYTE_FEEDS) {
        ensure!(feed::<Text>(f, s.as_bytes()).is_err(), sig, "serde visitor entry {f:?} {s:?}");
    }
    ensure!(ciborium::from_reader::<Text, _>(&cbor_bytes(s.as_bytes())[..]).is_err(), sig, "cbor byte string {s:?}");
    // an archive of the raw string has the layout of an archived Text
    let ar = rkyv::to_bytes::<RErr>(&s.to_string()).unwrap();
    ensure!(rkyv::access::<rkyv::Archived<Text>, RErr>(&ar).is_err(), sig, "rkyv access {s:?}");
    Ok(())
}

fn ident_all_reject(s: &str) -> CheckResult {
    let sig = "identifier constructor accepted a non-identifier";
    ensure!(Identifier::from_str(s).is_err(), sig, "FromStr {s:?}");
    ensure!(Identifier::try_from(s.to_string()).is_err(), sig, "TryFrom<String> {s:?}");
    if let Ok(t) = Text::from_str(s) {
        ensure!(Identifier::try_from(t).is_err(), sig, "TryFrom<Text> {s:?}");
    }
    let js = serde_json::to_string(s).unwrap();
    ensure!(serde_json::from_str::<Identifier>(&js).is_err(), sig, "json {s:?}");
    ensure!(serde_json::from_reader::<_, Identifier>(js.as_bytes()).is_err(), sig, "json reader {s:?}");
    let pc = postcard::to_allocvec(s).unwrap();
    ensure!(postcard::from_bytes::<Identifier>(&pc).is_err(), sig, "postcard {s:?}");
    let mut cb = Vec::new();
    ciborium::into_writer(s, &mut cb).unwrap();
    ensure!(ciborium::from_reader::<Identifier, _>(&cb[..]).is_err(), sig, "cbor {s:?}");
    for f in STR_FEEDS.into_iter().chain(BYTE_FEEDS) {
        ensure!(feed::<Identifier>(f, s.as_bytes()).is_err(), sig, "serde visitor entry {f:?} {s:?}");
    }
    ensure!(
        ciborium::from_reader::<Identifier, _>(&cbor_bytes(s.as_bytes())[..]).is_err(),
        sig,
        "cbor byte string {s:?}"
    );
    let ar = rkyv::to_bytes::<RErr>(&s.to_string()).unwrap();
    ensure!(rkyv::access::<rkyv::Archived<Identifier>, RErr>(&ar).is_err(), sig, "rkyv access {s:?}");
    Ok(())
}

fn repr_label(len: usize, is_static: bool) -> &'static str {
    if is_static {
        "static"
    } else if len <= 22 {
        "inline"
    } else {
        "heap"
    }
}

fn check_str(s: &str, other: &str, split: u16, info: &mut CaseInfo) -> CheckResult {
    let vt = valid_text(s);
    let vi = valid_ident(s);
    if !vt {
        info.label("text_rejected");
        info.nontrivial();
        text_all_reject(s)?;
    }
    if !vi {
        info.label("ident_rejected");
        ident_all_reject(s)?;
    }
    if !vt {
        return Ok(());
    }
    info.nontrivial();
    info.label(format!("text_{}", repr_label(s.len(), false)));
    let routes = text_routes(s)?;
    let oroutes = if valid_text(other) { text_routes(other)? } else { Vec::new() };
    for (how, t) in &routes {
        text_ok(t, how)?;
        ensure!(t.as_str() == s, "constructor changed the content", "via {how}: {s:?} -> {:?}", t.as_str());
        ensure!(*t == *s, "PartialEq<str> disagrees", "via {how}: {s:?}");
        if *how == "static" {
            info.label("text_static");
        }
    }
    for (ha, a) in &routes {
        for (hb, b) in &routes {
            ensure!(a == b, "equal content compares unequal", "{ha} vs {hb}: {s:?}");
            ensure!(a.cmp(b) == Ordering::Equal, "equal content orders unequal", "{ha} vs {hb}: {s:?}");
            ensure!(a.partial_cmp(b) == Some(Ordering::Equal), "equal content orders unequal", "{ha} vs {hb}: {s:?}");
            ensure!(h(a) == h(b), "equal content hashes differently", "{ha} vs {hb}: {s:?}");
            ensure!(a.const_eq(b), "const_eq disagrees with content", "{ha} vs {hb}: {s:?}");
        }
        for (hb, b) in &oroutes {
            ensure!((a == b) == (s == other), "Eq disagrees with str", "{ha}:{s:?} vs {hb}:{other:?}");
            ensure!(a.cmp(b) == s.cmp(other), "Ord disagrees with str", "{ha}:{s:?} vs {hb}:{other:?}");
            ensure!(a.const_eq(b) == (s == other), "const_eq disagrees with str", "{ha}:{s:?} vs {hb}:{other:?}");
            if s == other {
                ensure!(h(a) == h(b), "equal content hashes differently", "{ha} vs {hb}: {s:?}");
            }
        }
    }
    if !oroutes.is_empty() && (s.len() <= 22) != (other.len() <= 22) {
        info.label("cross_repr_pair");
    }
    // archived forms compare by content as well
    {
        let a1 = rkyv::to_bytes::<RErr>(&routes[0].1).unwrap();
        let r1 = rkyv::access::<rkyv::Archived<Text>, RErr>(&a1)
            .map_err(|e| Failure::new("valid text rejected", format!("rkyv access: {e}")))?;
        if let Some((_, o)) = oroutes.first() {
            let a2 = rkyv::to_bytes::<RErr>(o).unwrap();
            let r2 = rkyv::access::<rkyv::Archived<Text>, RErr>(&a2)
                .map_err(|e| Failure::new("valid text rejected", format!("rkyv access: {e}")))?;
            ensure!((r1 == r2) == (s == other), "archived Eq disagrees with str", "{s:?} vs {other:?}");
            ensure!(r1.cmp(r2) == s.cmp(other), "archived Ord disagrees with str", "{s:?} vs {other:?}");
            if s == other {
                ensure!(h(r1) == h(r2), "archived hash differs for equal content", "{s:?}");
            }
        }
    }
    // concatenation
    let cuts: Vec<usize> = s.char_indices().map(|(i, _)| i).chain(std::iter::once(s.len())).collect();
    let cut = cuts[idx(split, cuts.len())];
    let (l, r) = s.split_at(cut);
    for (ha, a) in text_routes(l)?.iter().take(1).chain(text_routes(l)?.iter().rev().take(2)) {
        for (hb, b) in text_routes(r)?.iter().take(1).chain(text_routes(r)?.iter().rev().take(2)) {
            let sum = a + b;
            text_ok(&sum, "Add")?;
            ensure!(sum.as_str() == s, "concatenation content wrong", "{ha}:{l:?} + {hb}:{r:?} = {:?}", sum.as_str());
            ensure!(sum == routes[0].1 && h(&sum) == h(&routes[0].1), "concatenation not equal to same content", "{s:?}");
        }
    }
    if let Some((_, o)) = oroutes.first() {
        let sum = &routes[0].1 + o;
        text_ok(&sum, "Add")?;
        ensure!(sum.as_str() == format!("{s}{other}"), "concatenation content wrong", "{s:?} + {other:?}");
        if s.len() <= 22 && sum.as_str().len() > 22 {
            info.label("concat_crosses_boundary");
        }
    }

    if vi {
        info.label(format!("ident_{}", repr_label(s.len(), false)));
        let ir = ident_routes(s)?;
        let oir = if valid_ident(other) { ident_routes(other)? } else { Vec::new() };
        for (how, t) in &ir {
            ident_ok(t, how)?;
            ensure!(t.as_str() == s, "constructor changed the content", "ident via {how}: {s:?}");
            ensure!(*t == *s, "PartialEq<str> disagrees", "ident via {how}: {s:?}");
            // Borrow<str> is implemented: hash must equal str's
            ensure!(h(t) == h(s), "identifier hash differs from str hash (Borrow<str> contract)", "via {how}: {s:?}");
            if *how == "static" {
                info.label("ident_static");
            }
        }
        for (ha, a) in &ir {
            for (hb, b) in &ir {
                ensure!(a == b && a.cmp(b) == Ordering::Equal && h(a) == h(b) && a.const_eq(b),
                    "equal identifiers differ in Eq/Ord/Hash", "{ha} vs {hb}: {s:?}");
            }
            for (hb, b) in &oir {
                ensure!((a == b) == (s == other), "Eq disagrees with str", "ident {ha}:{s:?} vs {hb}:{other:?}");
                ensure!(a.cmp(b) == s.cmp(other), "Ord disagrees with str", "ident {ha}:{s:?} vs {hb}:{other:?}");
            }
        }
    }
    Ok(())
}

fn check_bytes(b: &[u8], info: &mut CaseInfo) -> CheckResult {
    let mut accepted = false;
    if let Ok((t, _)) = postcard::take_from_bytes::<Text>(b) {
        text_ok(&t, "postcard bytes")?;
        accepted = true;
    }
    if let Ok((t, _)) = postcard::take_from_bytes::<Identifier>(b) {
        ident_ok(&t, "postcard bytes")?;
        accepted = true;
    }
    if let Ok(t) = serde_json::from_slice::<Text>(b) {
        text_ok(&t, "json bytes")?;
        accepted = true;
    }
    if let Ok(t) = serde_json::from_slice::<Identifier>(b) {
        ident_ok(&t, "json bytes")?;
        accepted = true;
    }
    if let Ok(t) = serde_json::from_reader::<_, Text>(b) {
        text_ok(&t, "json reader bytes")?;
    }
    if let Ok(t) = serde_json::from_reader::<_, Identifier>(b) {
        ident_ok(&t, "json reader bytes")?;
    }
    if let Ok(t) = ciborium::from_reader::<Text, _>(b) {
        text_ok(&t, "cbor bytes")?;
        accepted = true;
    }
    if let Ok(t) = ciborium::from_reader::<Identifier, _>(b) {
        ident_ok(&t, "cbor bytes")?;
        accepted = true;
    }
    // the raw bytes presented through the byte entry points of the serde visitor, and as a CBOR byte string
    for f in BYTE_FEEDS {
        if let Ok(t) = feed::<Text>(f, b) {
            text_ok(&t, "serde visitor bytes entry")?;
            ensure!(t.as_str().as_bytes() == b, "bytes entry changed content", "{f:?} {b:?}");
            info.label("visitor_bytes_accepted_text");
            accepted = true;
        }
        if let Ok(t) = feed::<Identifier>(f, b) {
            ident_ok(&t, "serde visitor bytes entry")?;
            ensure!(t.as_str().as_bytes() == b, "bytes entry changed content", "{f:?} {b:?}");
            info.label("visitor_bytes_accepted_ident");
            accepted = true;
        }
    }
    let cbb = cbor_bytes(b);
    if let Ok(t) = ciborium::from_reader::<Text, _>(&cbb[..]) {
        text_ok(&t, "cbor byte string")?;
        accepted = true;
    }
    if let Ok(t) = ciborium::from_reader::<Identifier, _>(&cbb[..]) {
        ident_ok(&t, "cbor byte string")?;
        accepted = true;
    }
    if let Ok(c) = CStr::from_bytes_until_nul(b) {
        if let Ok(t) = Text::try_from(c) {
            text_ok(&t, "CStr bytes")?;
            ensure!(t.as_str().as_bytes() == c.to_bytes(), "CStr conversion changed content", "{b:?}");
            accepted = true;
        }
    }
    if accepted {
        info.label("bytes_accepted");
        info.nontrivial();
    } else {
        info.label("bytes_rejected");
    }
    Ok(())
}

fn check(c: &Case, info: &mut CaseInfo) -> CheckResult {
    match c {
        Case::Str { s, other, split } => {
            info.label("str");
            check_str(s, other, *split, info)
        }
        Case::Bytes { b } => check_bytes(b, info),
        Case::Archive { b } => {
            info.label("archive_raw");
            let (t, i) = check_archive(b, info)?;
            if t.is_some() || i.is_some() {
                info.nontrivial();
            }
            Ok(())
        }
        Case::MutArchive { s, edits, content_edit, cut } => {
            info.label("archive_mut");
            let ar = rkyv::to_bytes::<RErr>(s).unwrap();
            let mut bytes: Vec<u8> = ar.to_vec();
            // a targeted edit inside the string content: expected outcome is known
            let mut expect: Option<Vec<u8>> = None;
            let mut skip_expect = false;
            if edits.is_empty() && *cut == 0 {
                let mut content = s.as_bytes().to_vec();
                if let (Some((p, v)), false) = (content_edit, content.is_empty()) {
                    // find the content inside the archive (unique when it is long enough)
                    let occurrences = bytes.windows(content.len()).filter(|w| *w == &content[..]).count();
                    let pos = bytes.windows(content.len()).position(|w| w == &content[..]);
                    if let (1, Some(pos)) = (occurrences, pos) {
                        let i = idx(*p, content.len());
                        bytes[pos + i] = *v;
                        content[i] = *v;
                        info.label("content_edit");
                        // rkyv stores strings of <= 8 bytes in place, padded with 0xff: writing 0xff there
                        // changes the length, so no exact expectation in that case (invariants only)
                        if content.len() <= 8 && *v == 0xff {
                            skip_expect = true;
                        }
                    }
                }
                if !skip_expect {
                    expect = Some(content);
                }
            } else {
                for (p, v) in edits {
                    if !bytes.is_empty() {
                        let i = idx(*p, bytes.len());
                        bytes[i] = *v;
                    }
                }
                let c = (*cut as usize).min(bytes.len());
                bytes.drain(..c);
            }
            let (t, i) = check_archive(&bytes, info)?;
            if let Some(content) = expect {
                // structure untouched: what is accepted must be exactly the (edited) content, and invalid
                // content must be refused
                let as_str = std::str::from_utf8(&content).ok();
                let want_t = as_str.filter(|x| valid_text(x));
                let want_i = as_str.filter(|x| valid_ident(x));
                if let Some(g) = &t {
                    ensure!(Some(g.as_str()) == want_t, "archive access returned other content", "{g:?} vs {want_t:?}");
                }
                if let Some(g) = &i {
                    ensure!(Some(g.as_str()) == want_i, "archive access returned other content", "{g:?} vs {want_i:?}");
                }
                if want_t.is_none() {
                    ensure!(t.is_none(), "archive access accepted invalid text content", "{content:?}");
                    info.label("archive_invalid_text_refused");
                }
                if want_i.is_none() {
                    ensure!(i.is_none(), "archive access accepted invalid identifier content", "{content:?}");
                    info.label("archive_invalid_ident_refused");
                }
                // a valid archive of valid content must be usable (round trip of the crate's own output)
                if content_edit.is_none() || content == s.as_bytes() {
                    if let Some(w) = want_t {
                        ensure!(t.as_deref() == Some(w), "archive of valid text refused", "{w:?}");
                    }
                    if let Some(w) = want_i {
                        ensure!(i.as_deref() == Some(w), "archive of valid identifier refused", "{w:?}");
                    }
                }
            }
            info.nontrivial();
            Ok(())
        }
    }
}

pub fn run(ctx: &Ctx) -> ! {
    let mut rep = Report::new(ctx, "exploration");
    rep.assume("an archive of a plain String has the byte layout of an archived Text/Identifier (both wrap rkyv's ArchivedString transparently), which is how archives with hostile content are produced");
    rep.assume("std's DefaultHasher (fixed keys) stands for 'any hasher' in the hashing clause");
    rep.explore(
        "text_ident",
        "strings (identifier-like, printable, arbitrary unicode, embedded NUL, almost-identifiers, lengths 18..27 around \
         the 22-byte inline limit, contents that also exist as &'static literals) through FromStr, TryFrom<String>, \
         TryFrom<Text>, TryFrom<&CStr>, serde_json (str/reader/value), postcard, CBOR (text and byte strings), every serde visitor entry point (str/borrowed str/String/bytes/borrowed bytes/byte buf), rkyv access+deserialize, Clone, \
         From<Identifier>, Add; arbitrary and near-valid byte strings through the byte decoders; arbitrary buffers and \
         edited archives through rkyv access. Non-trivial = a string that must be rejected by every constructor, or a valid \
         string compared across all routes (Eq/Ord/Hash/const_eq vs str, vs a second string), or a byte/archive input that \
         some decoder accepted, or any edited archive",
        case,
        ctx.pick(120_000, 2_400_000),
        check,
    );
    rep.finish()
}
