mod c25;
mod c26;
mod c27;
mod c31;
mod c32;
mod policies;

fn main() {
    // C25 re-executes itself for the cases that may abort the process (see c25::child_main).
    if let Ok(spec) = std::env::var("VH_ROBUST_C25_CHILD") {
        c25::child_main(&spec);
    }
    let ctx = vcommon::Ctx::from_args();
    ctx.watchdog(ctx.pick(1200, 10800));
    match ctx.prop.as_str() {
        "C25" => c25::run(&ctx),
        "C26" => c26::run(&ctx),
        "C27" => c27::run(&ctx),
        "C31" => c31::run(&ctx),
        "C32" => c32::run(&ctx),
        p => {
            println!("INCONCLUSIVE vh-robust does not serve {p}");
            std::process::exit(2);
        }
    }
}
