fn main() { let _ = vcommon::Ctx::from_args(); }
