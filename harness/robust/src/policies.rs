//! Small policies written for this harness (no FFI), shared by C25 (bases for bytecode mutation), C27 (corpus
//! for text mutation) and C31 (documents of known class).

/// Larger policies that parse and compile (validation is not required of them, and the path tracer may need long
/// for them). Bases for bytecode mutation (C25) and text mutation (C27).
pub const RICH: &[&str] = &[
    // 0: counters, facts, match, if, functions, finish functions, effects, recall
    r#"
enum Mode { Off, On, Auto }

struct Pair {
    a int,
    b string,
}

fact Counter[owner id]=>{n int, mode enum Mode}
fact Note[owner id, k int]=>{text string}
immutable fact Seen[k int]=>{}

effect Changed {
    owner id,
    n int,
    note string dynamic,
}

effect Dropped {
    owner id,
}

let LIMIT = 10
let GREETING = "hello"

function clamp(v int) int {
    if v > LIMIT {
        return LIMIT
    }
    if v < 0 {
        return 0
    }
    return v
}

function pick(m enum Mode, a int, b int) int {
    match m {
        Mode::Off => { return a }
        Mode::On => { return b }
        _ => { return saturating_add(a, b) }
    }
}

function mk(a int) struct Pair {
    return Pair { a: a, b: GREETING }
}

function count_notes(owner id) int {
    return count_up_to 5 Note[owner: owner, k: ?]=>{text: ?}
}

finish function bump(owner id, n int, m enum Mode) {
    update Counter[owner: owner]=>{n: ?, mode: ?} to {n: n, mode: m}
}

action init(owner id) {
    publish Init { owner: owner }
}

action sweep(owner id) {
    map Note[owner: owner, k: ?]=>{text: ?} as n {
        if n.k > 3 {
            publish Reset { owner: n.owner }
        } else {
            publish Add { owner: n.owner, delta: n.k, note: Some(n.text) }
        }
    }
    publish Reset { owner: owner }
}

action add(owner id, delta int, note option[string]) {
    let d = clamp(delta)
    if d == 0 {
        publish Reset { owner: owner }
    } else {
        publish Add { owner: owner, delta: d, note: note }
    }
}

command Init {
    fields {
        owner id,
    }
    seal { return todo() }
    open { return todo() }
    policy {
        check !exists Counter[owner: this.owner]=>{n: ?, mode: ?} else recall gone(this.owner)
        finish {
            create Counter[owner: this.owner]=>{n: 0, mode: Mode::Auto}
            emit Changed { owner: this.owner, n: 0, note: "init" }
        }
    }
    recall gone(owner id) {
        finish {
            emit Dropped { owner: owner }
        }
    }
}

command Add {
    fields {
        owner id,
        delta int,
        note option[string],
    }
    seal { return todo() }
    open { return todo() }
    policy {
        let c = query Counter[owner: this.owner]=>{n: ?, mode: ?} or recall nope()
        let total = pick(c.mode, c.n, this.delta)
        let p = mk(total)
        let text = match this.note {
            Some(t) => t
            None => p.b
        }
        let k = count_notes(this.owner)
        if total > 5 && at_least 1 Note[owner: this.owner, k: ?]=>{text: ?} {
            finish {
                bump(this.owner, total, Mode::On)
                delete Note[owner: this.owner, k: 0]
                emit Changed { owner: this.owner, n: total, note: text }
            }
        } else {
            finish {
                bump(this.owner, total, c.mode)
                create Note[owner: this.owner, k: k]=>{text: text}
                emit Changed { owner: this.owner, n: p.a, note: text }
            }
        }
    }
    recall nope() {
        finish {}
    }
}

command Reset {
    fields {
        owner id,
    }
    seal { return todo() }
    open { return todo() }
    policy {
        check this.owner == this.owner else recall r()
        finish {
            delete Counter[owner: this.owner]
            emit Dropped { owner: this.owner }
        }
    }
    recall r() {
        finish {}
    }
}
"#,
    // 1: options, results, structs, casts, seal/open with serialize/deserialize shapes
    r#"
enum Fault { Small, Big }

struct Inner {
    x int,
    ok bool,
}

struct Outer {
    name string,
    inner struct Inner,
    maybe option[int],
}

struct Wire {
    x int,
    ok bool,
}

fact Box[k string]=>{v struct Inner, o option[int]}

effect Out {
    name string,
    x int,
    r bool,
}

function checked(v int) result[int, enum Fault] {
    if v < 0 {
        return Err(Fault::Small)
    } else if v > 100 {
        return Err(Fault::Big)
    }
    return Ok(v)
}

function unwrap_or(o option[int], d int) int {
    match o {
        Some(v) => { return v }
        None => { return d }
    }
}

function sum3(a int, b int, c int) option[int] {
    let ab = add(a, b) or return None
    return add(ab, c)
}

function build(name string, x int) struct Outer {
    let i = Inner { x: x, ok: x > 0 }
    return Outer { name: name, inner: i, maybe: Some(x) }
}

function as_wire(i struct Inner) struct Wire {
    return i as Wire
}

action store(name string, x int) {
    let r = checked(x)
    match r {
        Ok(v) => {
            publish Store { name: name, x: v, tag: None }
        }
        Err(e) => {
            publish Store { name: name, x: 0, tag: Some(e) }
        }
    }
}

command Store {
    fields {
        name string,
        x int,
        tag option[enum Fault],
    }
    seal { return todo() }
    open { return todo() }
    policy {
        let o = build(this.name, this.x)
        let w = as_wire(o.inner)
        let old = query Box[k: this.name]=>{v: ?, o: ?}
        let total = sum3(w.x, unwrap_or(o.maybe, 1), 1) or 0
        let is_err = this.tag is Some
        if old is None {
            finish {
                create Box[k: this.name]=>{v: o.inner, o: o.maybe}
                emit Out { name: this.name, x: total, r: is_err }
            }
        } else {
            finish {
                update Box[k: this.name]=>{v: ?, o: ?} to {v: o.inner, o: None}
                emit Out { name: o.name, x: w.x, r: w.ok }
            }
        }
    }
}
"#,
    // 2: tiny
    r#"
fact F[i int]=>{s string}

action go(i int, s string) {
    publish C { i: i, s: s }
}

command C {
    fields {
        i int,
        s string,
    }
    seal { return todo() }
    open { return todo() }
    policy {
        finish {
            create F[i: this.i]=>{s: this.s}
        }
    }
}
"#,
    // 3: struct composition, field insertion, nested blocks, block expressions
    r#"
struct Base {
    a int,
    b bool,
}

struct Ext {
    +Base,
    c string,
}

effect E {
    +Base,
    c string,
}

fact G[a int, b bool]=>{c string}

function widen(x struct Base, c string) struct Ext {
    return Ext { c: c, ...x }
}

function narrow(x struct Ext) struct Base {
    return x substruct Base
}

function pickc(x struct Ext) string {
    let v = if x.b { :x.c } else {
        let d = "none"
        :d
    }
    return v
}

action make(a int, b bool) {
    let base = Base { a: a, b: b }
    let ext = widen(base, "c")
    publish M { a: narrow(ext).a, b: ext.b, c: pickc(ext) }
}

command M {
    fields {
        a int,
        b bool,
        c string,
    }
    seal { return todo() }
    open { return todo() }
    policy {
        let e = Ext { a: this.a, b: this.b, c: this.c }
        check at_most 1 G[a: this.a, b: ?]=>{c: ?} else recall bail(e)
        finish {
            create G[a: e.a, b: e.b]=>{c: e.c}
            emit E { a: e.a, b: e.b, c: e.c }
        }
    }
    recall bail(e struct Ext) {
        finish {
            emit E { a: e.a, b: false, c: "recalled" }
        }
    }
}
"#,
];

/// Small policies that parse, compile and pass validation.
pub const VALID: &[&str] = &[
    r#"
fact F[i int]=>{s string}

action go(i int, s string) {
    publish C { i: i, s: s }
}

command C {
    fields {
        i int,
        s string,
    }
    seal { return todo() }
    open { return todo() }
    policy {
        finish {
            create F[i: this.i]=>{s: this.s}
        }
    }
}
"#,
    r#"
enum Mode { Off, On }

fact Counter[owner id]=>{n int}

effect Changed {
    owner id,
    n int,
}

action bump(owner id, by int) {
    if by > 0 {
        publish Bump { owner: owner, by: by }
    } else {
        publish Bump { owner: owner, by: 1 }
    }
}

command Bump {
    fields {
        owner id,
        by int,
    }
    seal { return todo() }
    open { return todo() }
    policy {
        let c = query Counter[owner: this.owner]=>{n: ?}
        if c is None {
            finish {
                create Counter[owner: this.owner]=>{n: this.by}
                emit Changed { owner: this.owner, n: this.by }
            }
        } else {
            check this.by < 100 else recall undo()
            finish {
                update Counter[owner: this.owner]=>{n: ?} to {n: this.by}
                emit Changed { owner: this.owner, n: this.by }
            }
        }
    }
    recall undo() {
        finish {
            delete Counter[owner: this.owner]
        }
    }
}
"#,
    r#"
struct Pair {
    a int,
    b string,
}

function pick(flag bool, p struct Pair) int {
    match flag {
        true => { return p.a }
        false => {
            if p.b == "x" {
                return 0
            } else {
                return 1
            }
        }
    }
}

function maybe(v int) option[int] {
    if v > 0 {
        return Some(v)
    }
    return None
}
"#,
    r#"
let LIMIT = 10

struct Base {
    a int,
}

struct Ext {
    +Base,
    c string,
}

function widen(x struct Base) struct Ext {
    return Ext { c: "c", ...x }
}

function clamp(v int) int {
    if v > LIMIT {
        return LIMIT
    }
    return v
}
"#,
];

/// Policies that parse and compile but must fail validation (one reason each).
pub const INVALID_VALIDATION: &[(&str, &str)] = &[
    (
        "function path without return",
        r#"
function f(x int) int {
    if x > 0 {
        return 1
    }
}
"#,
    ),
    (
        "action branch without publish",
        r#"
action a(x int) {
    if x > 0 {
        publish C { x: x }
    }
}
command C {
    fields { x int }
    seal { return todo() }
    open { return todo() }
    policy { finish {} }
}
"#,
    ),
    (
        "action without publish",
        r#"
action quiet(x int) {
    let y = x
}
"#,
    ),
    (
        "action match arm without publish",
        r#"
action pickone(b bool) {
    match b {
        true => { publish C { x: 1 } }
        false => { let z = 0 }
    }
}
command C {
    fields { x int }
    seal { return todo() }
    open { return todo() }
    policy { finish {} }
}
"#,
    ),
    (
        "match arm without return",
        r#"
function g(b bool) int {
    match b {
        true => { return 1 }
        false => { let y = 2 }
    }
}
"#,
    ),
    (
        "nested if without return on one path",
        r#"
function deep(x int, y int) int {
    if x > 0 {
        if y > 0 {
            return 1
        } else {
            let q = 3
        }
    } else {
        return 2
    }
}
"#,
    ),
];

/// Policies that parse but do not compile.
pub const INVALID_COMPILE: &[(&str, &str)] = &[
    ("undefined identifier", "function f() int { return y }\n"),
    ("type mismatch", "function f() int { return \"s\" }\n"),
    ("unknown struct", "function f() struct Nope { return todo() }\n"),
    ("duplicate function", "function f() int { return 1 }\nfunction f() int { return 2 }\n"),
    ("unknown fact", "command C {\n fields {}\n seal { return todo() }\n open { return todo() }\n policy { finish { create Z[]=>{} } }\n}\n"),
    ("publish in function", "function f() int { publish X {} }\n"),
    ("bad enum", "enum E { A, A }\n"),
    ("wrong arity", "function f(a int) int { return a }\nfunction g() int { return f(1, 2) }\n"),
    ("check not bool", "function f() int { check 3 else return 0\n return 1 }\n"),
];

/// Texts that do not parse as policy source.
pub const INVALID_PARSE: &[(&str, &str)] = &[
    ("garbage", "this is not a policy\n"),
    ("unclosed brace", "function f() int { return 1\n"),
    ("bad token", "function f() int { return 1 ++ 2 }\n"),
    ("keyword as name", "function function() int { return 1 }\n"),
    ("missing type", "function f(a) int { return 1 }\n"),
    ("stray", "fact F[i int]=>{s string} }\n"),
    ("unterminated string", "let x = \"abc\n"),
];

pub fn to_doc(src: &str) -> String {
    format!("---\npolicy-version: 2\n---\n\nSome prose.\n\n```policy\n{src}\n```\n")
}
