//! C10: a graph is bound to its init command.
use aranya_runtime::{ClientError, CmdId, MaxCut, Prior, Priority, StorageError, StorageProvider};
use proptest::prelude::*;
use serde::{Deserialize, Serialize};
use vcommon::{CaseInfo, CheckResult, Ctx, Failure, Report, ensure, fail};

use crate::{
    policy::{OwnedCmd, POLICY_BYTES, WireCmd, addr},
    replica::{MemReplica, Replica, owned_of},
    txn::foreign_init,
    world::{Kind, Payload, Step, World, init_id, strategies},
};

#[derive(Clone, Debug, Serialize, Deserialize)]
pub enum Follow {
    /// the next not-yet-delivered command of the world (parents first)
    Next,
    OwnInit,
    ForeignInit,
}

#[derive(Clone, Debug, Serialize, Deserialize)]
pub struct Case {
    /// first command shape: 0 = no parent, 1 = single parent, 2 = merge parents
    pub parent_shape: u8,
    pub has_policy: bool,
    pub id_matches: bool,
    /// priority claimed by the first command (an init-shaped command may still claim another priority)
    pub claim_init_priority: bool,
    pub recipe: Vec<Step>,
    pub batches: Vec<Vec<Follow>>,
    pub commit_each: bool,
}

fn case() -> impl Strategy<Value = Case> {
    (
        prop_oneof![6 => Just(0u8), 1 => Just(1u8), 1 => Just(2u8)],
        prop::bool::weighted(0.85),
        prop::bool::weighted(0.85),
        prop::bool::weighted(0.8),
        strategies::recipe(12, 0, 0),
        prop::collection::vec(
            prop::collection::vec(prop_oneof![5 => Just(Follow::Next), 2 => Just(Follow::OwnInit), 1 => Just(Follow::ForeignInit)], 1..6),
            0..5,
        ),
        any::<bool>(),
    )
        .prop_map(|(parent_shape, has_policy, id_matches, claim_init_priority, recipe, batches, commit_each)| Case {
            parent_shape,
            has_policy,
            id_matches,
            claim_init_priority,
            recipe,
            batches,
            commit_each,
        })
}

fn first_cmd(c: &Case) -> OwnedCmd {
    let mut id = init_id();
    if !c.id_matches {
        id[7] ^= 0x80;
    }
    let other = |b: u8| {
        let mut x = init_id();
        x[0] = b;
        addr(&x, 3)
    };
    let w = WireCmd {
        id,
        kind: Kind::Init,
        parents: vec![],
        payload: Payload::empty(),
    };
    let mut cmd = OwnedCmd::from_wire(&w);
    cmd.id = CmdId::from_bytes(id);
    cmd.parent = match c.parent_shape {
        0 => Prior::None,
        1 => Prior::Single(other(1)),
        _ => Prior::Merge(other(1), other(2)),
    };
    cmd.policy = if c.has_policy { Some(POLICY_BYTES.to_vec()) } else { None };
    cmd.priority = if c.claim_init_priority { Priority::Init } else { Priority::Basic(0) };
    let _ = MaxCut::new(0);
    cmd
}

fn graph_listed<SP: StorageProvider>(rep: &mut Replica<SP>) -> Result<Vec<[u8; 32]>, Failure> {
    let it = rep.client.provider().list_graph_ids().map_err(|e| Failure::new("C10: list_graph_ids failed", e.to_string()))?;
    let mut v = Vec::new();
    for g in it {
        let g = g.map_err(|e| Failure::new("C10: list_graph_ids failed", e.to_string()))?;
        v.push(*g.as_array());
    }
    Ok(v)
}

fn check(c: &Case, info: &mut CaseInfo) -> CheckResult {
    let w = World::from_recipe(&c.recipe, crate::scenario::HONEST);
    let mut rep = MemReplica::new_mem();
    let mut trx = rep.trx();
    let first = first_cmd(c);
    let should_create = c.parent_shape == 0 && c.has_policy && c.id_matches;
    let r = rep.add(&mut trx, &[first]);
    if !should_create {
        info.label("bad_first_command");
        match r {
            Err(ClientError::InitError) => {}
            Ok(n) => fail!(
                "C10: a graph was created from a first command that is not its init command",
                "shape parent={} policy={} id_matches={} -> Ok({n})",
                c.parent_shape,
                c.has_policy,
                c.id_matches
            ),
            Err(e) => fail!("C10: bad first command refused with an unexpected error", "{e}"),
        }
        let listed = graph_listed(&mut rep)?;
        ensure!(listed.is_empty(), "C10: a refused first command left a graph behind", "listed {listed:?}");
        match rep.client.provider().get_storage(rep.gid) {
            Err(StorageError::NoSuchStorage) => {}
            Ok(_) => fail!("C10: a refused first command left a graph behind", "get_storage succeeded"),
            Err(e) => fail!("C10: unexpected storage error after refused first command", "{e}"),
        }
        info.nontrivial();
        return Ok(());
    }
    let n = r.map_err(|e| Failure::new("C10: creating the graph from its init command failed", e.to_string()))?;
    ensure!(n == 1, "C10: creating the graph from its init command returned the wrong count", "{n}");
    rep.commit(trx).map_err(|e| Failure::new("C10: committing the init command failed", e.to_string()))?;
    let listed = graph_listed(&mut rep)?;
    ensure!(listed == vec![init_id()], "C10: the created graph's id is not the init command's id", "listed {listed:?}");
    ensure!(rep.has_graph(), "C10: graph not retrievable under the init command's id", "");
    // follow-up batches
    let mut delivered = std::collections::BTreeSet::new();
    delivered.insert(0usize);
    let mut committed = delivered.clone();
    let mut trx = rep.trx();
    let mut own = 0;
    let mut foreign = 0;
    for (bi, b) in c.batches.iter().enumerate() {
        let mut cmds = Vec::new();
        let mut expect_ok = 0usize;
        let mut expect_err = false;
        let mut local = delivered.clone();
        for f in b {
            match f {
                Follow::Next => {
                    let next = (0..w.len()).find(|i| !local.contains(i) && w.honest(*i) && w.cmds[*i].parents.iter().all(|p| local.contains(p)));
                    if let Some(i) = next {
                        cmds.push(owned_of(&w, i));
                        if !expect_err {
                            expect_ok += 1;
                            local.insert(i);
                        }
                    }
                }
                Follow::OwnInit => {
                    cmds.push(owned_of(&w, 0));
                    own += 1;
                }
                Follow::ForeignInit => {
                    cmds.push(foreign_init());
                    if !expect_err {
                        foreign += 1;
                    }
                    expect_err = true;
                }
            }
        }
        if cmds.is_empty() {
            continue;
        }
        let before = if committed.len() == delivered.len() { Some(rep.obs().map_err(|e| Failure::new("observation failed", e))?) } else { None };
        let r = rep.add(&mut trx, &cmds);
        match (r, expect_err) {
            (Ok(n), false) => ensure!(n == expect_ok, "C10: re-received init command was counted or a command was lost", "batch#{bi}: got {n} want {expect_ok}"),
            (Err(ClientError::InitError), true) => {}
            (Ok(n), true) => fail!("C10: a foreign parentless command was accepted into an existing graph", "batch#{bi}: Ok({n})"),
            (Err(e), _) => fail!("C10: unexpected error for a batch with init commands", "batch#{bi}: {e}"),
        }
        delivered = local;
        if let Some(b4) = before {
            // nothing was committed by add_commands: observable state unchanged
            let now = rep.obs().map_err(|e| Failure::new("observation failed", e))?;
            ensure!(now == b4, "C10: receiving init commands changed the committed state", "batch#{bi}");
        }
        if c.commit_each {
            let t = std::mem::replace(&mut trx, rep.trx());
            rep.commit(t).map_err(|e| Failure::new("C10: commit failed after re-received init", e.to_string()))?;
            committed = delivered.clone();
            crate::txn::check_state(&mut rep, &w, &committed, &format!("after batch#{bi}"))?;
        }
    }
    rep.commit(trx).map_err(|e| Failure::new("C10: commit failed after re-received init", e.to_string()))?;
    crate::txn::check_state(&mut rep, &w, &delivered, "final")?;
    let listed = graph_listed(&mut rep)?;
    ensure!(listed == vec![init_id()], "C10: graph list changed", "listed {listed:?}");
    if own > 0 {
        info.label("own_init_redelivered");
    }
    if foreign > 0 {
        info.label("foreign_init");
    }
    if own > 0 || foreign > 0 {
        info.nontrivial();
    }
    Ok(())
}


// ---------------------------------------------------------------------------------------------
// graphs created locally by an init action that publishes further commands

#[derive(Clone, Debug, Serialize, Deserialize)]
pub struct NewGraphCase {
    /// bodies of the commands the init action publishes after the init command (0..4)
    pub extra: Vec<crate::world::Body>,
    pub script: crate::scenario::Script,
}

fn new_graph_case() -> impl Strategy<Value = NewGraphCase> {
    (prop::collection::vec(strategies::body(0), 0..5), crate::scenario::script_strategy())
        .prop_map(|(extra, script)| NewGraphCase { extra, script })
}

fn check_new_graph(c: &NewGraphCase, info: &mut CaseInfo) -> CheckResult {
    use crate::policy::{ActionScript, Publish};
    // the world the action will create: init, then a chain of published commands
    let mut w = World::with_init();
    let mut parent = 0usize;
    let mut pubs = Vec::new();
    for b in &c.extra {
        let mut bb = b.clone();
        bb.poison = false;
        bb.guard = 0;
        let id = w.fresh_id(bb.id_hi ^ 0x1010);
        let kind = Kind::Basic(u32::from(bb.prio % 3));
        let payload = Payload {
            guard: crate::world::Guard::None,
            ops: bb
                .ops
                .iter()
                .map(|(k, ks, v)| match k % 4 {
                    0 | 1 => crate::world::FOp::Insert(crate::world::key_from(*ks), vec![*v]),
                    2 => crate::world::FOp::Delete(crate::world::key_from(*ks)),
                    _ => crate::world::FOp::Seq,
                })
                .collect(),
            poison: false,
        };
        parent = w.push(id, kind, vec![parent], payload.clone());
        pubs.push(Publish { id, kind, payload });
    }
    let mut rep = MemReplica::new_mem();
    let gid = rep
        .client
        .new_graph(
            &POLICY_BYTES,
            ActionScript {
                init: true,
                dump: false,
                publishes: pubs,
            },
            &mut rep.sink,
        )
        .map_err(|e| Failure::new("C10: new_graph failed", e.to_string()))?;
    ensure!(
        *gid.as_array() == init_id(),
        "C10: the id of a newly created graph is not the id of its init command",
        "new_graph returned {} for a graph whose init command is {} ({} commands published by the init action)",
        gid,
        crate::scenario::short(&init_id()),
        c.extra.len() + 1
    );
    let listed = graph_listed(&mut rep)?;
    ensure!(listed == vec![init_id()], "C10: the created graph's id is not the init command's id", "listed {listed:?}");
    ensure!(rep.has_graph(), "C10: graph not retrievable under the init command's id", "");
    let all: std::collections::BTreeSet<usize> = (0..w.len()).collect();
    crate::txn::check_state(&mut rep, &w, &all, "after new_graph")?;
    // a peer can receive the graph under the init command's id
    let mut peer = MemReplica::new_mem();
    let mut sc = c.script.clone();
    sc.file = false;
    sc.init_via_action = false;
    crate::scenario::run_script(&mut peer, &w, &all, &sc, crate::scenario::Flags::default())?;
    let a = rep.obs().map_err(|e| Failure::new("observation failed", e))?;
    let b = peer.obs().map_err(|e| Failure::new("observation failed", e))?;
    ensure!(a == b, "C01: creator and receiver of a graph disagree", "{a:?} vs {b:?}");
    if !c.extra.is_empty() {
        info.label("init_action_published_more_commands");
        info.nontrivial();
    }
    Ok(())
}

pub fn run(ctx: &Ctx) -> ! {
    let mut rep = Report::new(ctx, "exploration");
    rep.explore(
        "init_binding",
        "first command delivered into a missing graph in all 12 shapes {no/single/merge parent} x {policy present/absent} x \
         {id equals graph id or not} (x claimed priority); creation must succeed iff parentless + policy + matching id, otherwise \
         InitError and no graph listed; then batches mixing ordinary commands with the graph's own init (must be a silent no-op, not \
         counted, state unchanged) and a foreign parentless command (InitError); non-trivial = a refused first command, or a \
         batch with a re-delivered/foreign init",
        case,
        ctx.pick(6000, 200_000),
        check,
    );
    rep.explore(
        "new_graph_by_action",
        "graphs created locally with new_graph by an init action that publishes the init command followed by 0-4 further commands; \
         the returned graph id, the listed graph id and the id the storage is retrievable under must be the init command's id, \
         the committed state must match the model, and a peer must be able to receive the same commands into a graph of that id \
         and agree with the creator; non-trivial = the init action published more than the init command",
        new_graph_case,
        ctx.pick(3000, 100_000),
        check_new_graph,
    );
    rep.finish()
}
