//! C11: command lookup and ancestry queries are exact.
use aranya_runtime::{Command, Location, Segment, Storage, StorageProvider};
use vcommon::{CaseInfo, CheckResult, Ctx, Failure, Report, ensure};

use crate::{
    policy::addr,
    replica::{FileReplica, MemReplica, Replica},
    scenario::{Case, Flags, HONEST, Prng, case_strategy, run_script, short, target_set},
    world::World,
};

fn check_on<SP: StorageProvider>(rep: &mut Replica<SP>, c: &Case, w: &World, info: &mut CaseInfo) -> CheckResult {
    let set = target_set(w, c.subset);
    run_script(rep, w, &set, &c.scripts[0], Flags::default())?;
    let walk = rep.walk().map_err(|e| Failure::new("C11: committed graph walk failed", e))?;
    let gid = rep.gid;
    // segment statistics
    let mut skips = 0usize;
    let mut segs = std::collections::BTreeSet::new();
    {
        let st = rep.client.provider().get_storage(gid).map_err(|e| Failure::new("get_storage", e.to_string()))?;
        for wc in walk.values() {
            if segs.insert(wc.loc.segment.get()) {
                let seg = st.get_segment(wc.loc).map_err(|e| Failure::new("C11: get_segment failed", e.to_string()))?;
                if seg.skip_list().len() > 1 {
                    skips += 1;
                }
            }
        }
    }
    info.label(match segs.len() {
        0..=5 => "segments<=5",
        6..=20 => "segments6-20",
        21..=100 => "segments21-100",
        _ => "segments>100",
    });
    if skips > 0 {
        info.label("has_skip_lists");
        info.nontrivial();
    }
    // 1. lookup of every world command from the committed heads
    for i in 0..w.len() {
        let cm = &w.cmds[i];
        let got = rep.locate(&cm.id, cm.max_cut).map_err(|e| Failure::new("C11: get_location failed", e))?;
        if set.contains(&i) {
            let Some(loc) = got else {
                return Err(Failure::new("C11: a committed command is not found by address", format!("{} mc {}", short(&cm.id), cm.max_cut)));
            };
            let st = rep.client.provider().get_storage(gid).map_err(|e| Failure::new("get_storage", e.to_string()))?;
            let seg = st.get_segment(loc).map_err(|e| Failure::new("C11: get_segment failed", e.to_string()))?;
            let cmd = seg.get_command(loc).ok_or_else(|| Failure::new("C11: lookup returned a location that holds no command", format!("{loc}")))?;
            ensure!(
                *cmd.id().as_array() == cm.id,
                "C11: lookup returned a location holding a different command",
                "asked {} got {} at {loc}",
                short(&cm.id),
                short(cmd.id().as_array())
            );
            ensure!(loc.max_cut.get() == cm.max_cut, "C11: lookup returned a location with the wrong max cut", "{} at {loc}", short(&cm.id));
        } else {
            ensure!(got.is_none(), "C11: a command that is not committed was found by address", "{} -> {:?}", short(&cm.id), got);
        }
        // fabricated id at the same max cut
        let mut fake = cm.id;
        fake[20] ^= 0x5a;
        let gotf = rep.locate(&fake, cm.max_cut).map_err(|e| Failure::new("C11: get_location failed", e))?;
        ensure!(gotf.is_none(), "C11: a fabricated command id was found", "{} mc {}", short(&fake), cm.max_cut);
    }
    // 2. ancestry on pairs
    let members: Vec<usize> = set.iter().copied().collect();
    let mut pairs: Vec<(usize, usize)> = Vec::new();
    if members.len() <= 30 {
        for a in &members {
            for b in &members {
                pairs.push((*a, *b));
            }
        }
    } else {
        let mut rng = Prng(c.scripts[0].seed ^ 0xC11);
        for _ in 0..300 {
            pairs.push((members[rng.below(members.len())], members[rng.below(members.len())]));
        }
        // near pairs are the interesting ones for skip lists: same chain, distance around skip boundaries
        for _ in 0..200 {
            let b = members[rng.below(members.len())];
            let anc: Vec<usize> = w.anc[b].iter().collect();
            pairs.push((anc[rng.below(anc.len())], b));
        }
    }
    let loc_of = |i: usize| -> Location { walk[&w.cmds[i].id].loc };
    for (a, b) in pairs {
        let (la, lb) = (loc_of(a), loc_of(b));
        let st = rep.client.provider().get_storage(gid).map_err(|e| Failure::new("get_storage", e.to_string()))?;
        let got = st
            .is_ancestor(la, lb, &mut rep.bufs.traversal.primary)
            .map_err(|e| Failure::new("C11: is_ancestor failed", e.to_string()))?;
        let want = w.is_proper_anc(a, b);
        ensure!(
            got == want,
            "C11: is_ancestor disagrees with the graph",
            "is_ancestor({} @{la}, {} @{lb}) = {got}, want {want}",
            short(&w.cmds[a].id),
            short(&w.cmds[b].id)
        );
        let gotl = st
            .get_location_from(lb, addr(&w.cmds[a].id, w.cmds[a].max_cut), &mut rep.bufs.traversal.primary)
            .map_err(|e| Failure::new("C11: get_location_from failed", e.to_string()))?;
        let wantl = w.is_anc_or_eq(a, b);
        ensure!(
            gotl.is_some() == wantl,
            "C11: get_location_from disagrees with the graph",
            "from {} search {}: got {:?} want found={wantl}",
            short(&w.cmds[b].id),
            short(&w.cmds[a].id),
            gotl
        );
        if let Some(l) = gotl {
            ensure!(l == la, "C11: get_location_from returned another location", "{l} vs {la}");
        }
    }
    Ok(())
}

fn check(c: &Case, info: &mut CaseInfo) -> CheckResult {
    let w = World::from_recipe(&c.recipe, HONEST);
    if c.scripts[0].file {
        info.label("file_backend");
        check_on(&mut FileReplica::new_file(), c, &w, info)
    } else {
        check_on(&mut MemReplica::new_mem(), c, &w, info)
    }
}

pub fn run(ctx: &Ctx) -> ! {
    let mut rep = Report::new(ctx, "exploration");
    rep.assume("ancestry oracle = reachability in the abstract DAG the commands were generated from");
    rep.explore(
        "lookup_small",
        "worlds of <= 40 recipe steps, a downward-closed subset committed via one generated script; every world command (committed \
         or not) and a fabricated id are looked up by address; all pairs checked with is_ancestor and get_location_from against \
         DAG reachability; non-trivial = some stored segment has a skip list with > 1 entry",
        || case_strategy(40, 1, 2, 1..2),
        ctx.pick(800, 15_000),
        check,
    );
    rep.explore(
        "lookup_deep",
        "same with <= 300 recipe steps dominated by runs of up to 40 commands delivered in many small transactions (segment counts \
         cross the skip-list thresholds); 500 sampled pairs incl. 200 ancestor pairs",
        || case_strategy(300, 1, 12, 1..2),
        ctx.pick(48, 700),
        check,
    );
    rep.finish()
}
