//! C14: ephemeral sessions overlay their own writes on the committed facts.
use aranya_runtime::{ClientError, PolicyError, Sink, StorageProvider};
use proptest::prelude::*;
use serde::{Deserialize, Serialize};
use vcommon::{CaseInfo, CheckResult, Ctx, Failure, Report, ensure, fail};

use crate::{
    policy::{ActionScript, Eff, Place, Publish, RecSink, SinkEv, WireCmd},
    replica::{MemReplica, Replica},
    scenario::{Flags, HONEST, Script, fmt_facts, frontier_sorted, run_script, script_strategy, short, target_set},
    world::{Body, FOp, Facts, Guard, Id, Kind, Payload, Step, Verdict, World, eval_rule, key_from, strategies},
};

#[derive(Clone, Debug, Serialize, Deserialize)]
pub enum SOp {
    /// session `s` runs an action publishing these bodies (a poison body makes it fail)
    Action(u8, Vec<Body>),
    /// session `s` receives message number `m` (index into everything sent so far, any session)
    Receive(u8, u16),
    /// session `s` receives a locally fabricated command (never sent by any session)
    ReceiveFresh(u8, Body),
    /// garbage bytes
    ReceiveGarbage(u8, Vec<u8>),
    /// open a fresh session in slot `s`
    Reopen(u8),
}

#[derive(Clone, Debug, Serialize, Deserialize)]
pub struct Case {
    pub recipe: Vec<Step>,
    pub subset: u16,
    pub script: Script,
    /// number of plain successful actions (3 overwriting inserts each) run on session 0 before `ops`:
    /// makes the session long-lived (hundreds to thousands of writes, few live keys)
    #[serde(default)]
    pub warmup: u16,
    /// number of (one successful 1-write action, one failing action that writes 1-3 facts first) rounds run on
    /// session 0 after the warm-up: the write log grows by one per round, so failing operations are tried at
    /// every log length (any size threshold inside the session is crossed by a failing operation)
    #[serde(default)]
    pub sweep: u16,
    pub ops: Vec<SOp>,
}

fn sop() -> impl Strategy<Value = SOp> {
    prop_oneof![
        6 => (0u8..2, prop::collection::vec(strategies::body(0), 1..4)).prop_map(|(s, b)| SOp::Action(s, b)),
        4 => (0u8..2, any::<u16>()).prop_map(|(s, m)| SOp::Receive(s, m)),
        2 => (0u8..2, strategies::body(0)).prop_map(|(s, b)| SOp::ReceiveFresh(s, b)),
        1 => (0u8..2, prop::collection::vec(any::<u8>(), 0..40)).prop_map(|(s, b)| SOp::ReceiveGarbage(s, b)),
        1 => (0u8..2).prop_map(SOp::Reopen),
    ]
}

fn case() -> impl Strategy<Value = Case> {
    (
        strategies::recipe(25, 1, 1),
        prop_oneof![1 => Just(0u16), 1 => any::<u16>()],
        script_strategy(),
        prop::collection::vec(sop(), 1..25),
    )
        .prop_map(|(recipe, subset, script, ops)| Case { recipe, subset, script, warmup: 0, sweep: 0, ops })
}

fn long_case() -> impl Strategy<Value = Case> {
    (case(), prop_oneof![1 => 0u16..340, 1 => 340u16..700], prop_oneof![1 => Just(0u16), 2 => 200u16..1300]).prop_map(|(mut c, w, sw)| {
        c.warmup = w;
        c.sweep = sw;
        c
    })
}

#[derive(Default)]
struct MsgSink {
    msgs: Vec<Vec<u8>>,
    rollbacks: usize,
}

impl<'b> Sink<&'b [u8]> for MsgSink {
    fn begin(&mut self) {}
    fn consume(&mut self, e: &'b [u8]) {
        self.msgs.push(e.to_vec());
    }
    fn rollback(&mut self) {
        self.rollbacks += 1;
    }
    fn commit(&mut self) {}
}

fn payload_of(view: &Facts, b: &Body) -> Payload {
    let guard = if b.guard == 0 {
        Guard::None
    } else {
        let k = key_from(b.guard);
        // unlike graph commands the guard is NOT always made to pass: odd selectors invert it,
        // so receives exercise both verdicts
        let present = view.contains_key(&k);
        if (b.guard & 0x10 != 0) ^ present { Guard::Present(k) } else { Guard::Absent(k) }
    };
    let ops = b
        .ops
        .iter()
        .map(|(kind, ksel, v)| match kind % 4 {
            0 | 1 => FOp::Insert(key_from(*ksel), vec![*v]),
            2 => FOp::Delete(key_from(*ksel)),
            _ => FOp::Seq,
        })
        .collect();
    Payload {
        guard,
        ops,
        poison: b.poison,
    }
}

fn dump<SP: StorageProvider>(
    rep: &mut Replica<SP>,
    sess: &mut aranya_runtime::Session<SP, crate::policy::AuditStore>,
) -> Result<Facts, Failure> {
    let n = rep.audit.dumps.borrow().len();
    let mut sink = RecSink::default();
    let mut msgs = MsgSink::default();
    sess.action(
        &rep.client,
        &mut sink,
        &mut msgs,
        ActionScript {
            init: false,
            dump: true,
            publishes: vec![],
        },
    )
    .map_err(|e| Failure::new("C14: a read-only session action failed", e.to_string()))?;
    ensure_eq_len(rep.audit.dumps.borrow().len(), n + 1)?;
    Ok(rep.audit.dumps.borrow()[n].clone())
}

fn ensure_eq_len(a: usize, b: usize) -> CheckResult {
    ensure!(a == b, "HARNESS: dump not recorded", "{a} vs {b}");
    Ok(())
}

fn check(c: &Case, info: &mut CaseInfo) -> CheckResult {
    let w = World::from_recipe(&c.recipe, HONEST);
    let set = target_set(&w, c.subset);
    let mut rep = MemReplica::new_mem();
    run_script(&mut rep, &w, &set, &c.script, Flags::default())?;
    let f = frontier_sorted(&w, &set);
    if f.len() > 1 {
        info.label("multi_head_base");
    }
    let base = w.headset_state(&f).map_err(|_| Failure::new("HARNESS: parallel finalize in honest world", ""))?;
    let before = rep.obs().map_err(|e| Failure::new("observation failed", e))?;
    let ids_before = rep.committed_ids().map_err(|e| Failure::new("C11: committed graph walk failed", e))?;
    ensure!(before.facts == base, "C03: committed fact state differs from the reference braid", "");

    let mut sessions = vec![
        rep.client.session(rep.gid).map_err(|e| Failure::new("C14: cannot open a session", e.to_string()))?,
        rep.client.session(rep.gid).map_err(|e| Failure::new("C14: cannot open a session", e.to_string()))?,
    ];
    let mut views: Vec<Facts> = vec![base.clone(), base.clone()];
    let mut outbox: Vec<(Vec<u8>, WireCmd)> = Vec::new();
    let mut next_id = 1u64;
    let (mut failed_after_write, mut deleted_committed, mut rejected_receive) = (0, 0, 0);

    // warm-up: a long-lived session
    for k in 0..c.warmup {
        let payload = Payload {
            guard: Guard::None,
            ops: (0..3u8).map(|j| FOp::Insert(key_from(((k as u8).wrapping_mul(3).wrapping_add(j)) % 12), vec![(k % 251) as u8, j])).collect(),
            poison: false,
        };
        let mut id: Id = [0xCC; 32];
        id[2..10].copy_from_slice(&next_id.to_be_bytes());
        next_id += 1;
        let mut sink = RecSink::default();
        let mut msgs = MsgSink::default();
        sessions[0]
            .action(
                &rep.client,
                &mut sink,
                &mut msgs,
                ActionScript {
                    init: false,
                    dump: false,
                    publishes: vec![Publish {
                        id,
                        kind: Kind::Basic(0),
                        payload: payload.clone(),
                    }],
                },
            )
            .map_err(|e| Failure::new("C14: a plain session action failed", e.to_string()))?;
        let v = eval_rule(&id, &payload, &mut views[0]);
        ensure!(v == Verdict::Accepted, "HARNESS: warm-up command rejected by the model", "");
    }
    if c.warmup > 0 {
        info.label(if c.warmup >= 340 { "long_session>=1020_writes" } else { "long_session" });
        let got = dump(&mut rep, &mut sessions[0])?;
        ensure!(
            got == views[0],
            "C14: a session's fact view differs from committed facts overlaid with its own writes",
            "after {} warm-up actions:\n got  {}\n want {}",
            c.warmup,
            fmt_facts(&got),
            fmt_facts(&views[0])
        );
    }
    // sweep: failing operations at every write-log length
    for k in 0..c.sweep {
        for failing in [false, true] {
            let nwrites = if failing { 1 + (k % 3) as u8 } else { 1 };
            let payload = Payload {
                guard: Guard::None,
                ops: (0..nwrites).map(|j| FOp::Insert(key_from(((k as u8).wrapping_add(j)) % 12), vec![0xF0 | j, (k % 250) as u8])).collect(),
                poison: failing,
            };
            let mut id: Id = [0xCB; 32];
            id[2..10].copy_from_slice(&next_id.to_be_bytes());
            next_id += 1;
            let mut sink = RecSink::default();
            let mut msgs = MsgSink::default();
            let r = sessions[0].action(
                &rep.client,
                &mut sink,
                &mut msgs,
                ActionScript {
                    init: false,
                    dump: false,
                    publishes: vec![Publish {
                        id,
                        kind: Kind::Basic(0),
                        payload: payload.clone(),
                    }],
                },
            );
            if failing {
                match r {
                    Err(ClientError::PolicyError(PolicyError::Rejected)) => {}
                    other => fail!(
                        "C14: session action outcome differs from the model",
                        "sweep round {k} (after {} warm-up actions): failing action returned {}",
                        c.warmup,
                        other.map(|_| "Ok".to_string()).unwrap_or_else(|e| e.to_string())
                    ),
                }
                let got = dump(&mut rep, &mut sessions[0])?;
                ensure!(
                    got == views[0],
                    "C14: a failed session action changed the session's fact view",
                    "sweep round {k} (after {} warm-up actions):\n got  {}\n want {}",
                    c.warmup,
                    fmt_facts(&got),
                    fmt_facts(&views[0])
                );
            } else {
                r.map_err(|e| Failure::new("C14: a plain session action failed", format!("sweep round {k}: {e}")))?;
                let v = eval_rule(&id, &payload, &mut views[0]);
                ensure!(v == Verdict::Accepted, "HARNESS: sweep command rejected by the model", "");
            }
        }
    }
    if c.sweep > 0 {
        info.label("failing_ops_at_every_log_length");
        info.nontrivial();
    }
    for (oi, op) in c.ops.iter().enumerate() {
        let what = format!("op#{oi}");
        match op {
            SOp::Reopen(s) => {
                let s = *s as usize % 2;
                sessions[s] = rep.client.session(rep.gid).map_err(|e| Failure::new("C14: cannot open a session", e.to_string()))?;
                views[s] = base.clone();
            }
            SOp::Action(s, bodies) => {
                let s = *s as usize % 2;
                let mut trial = views[s].clone();
                let mut pubs = Vec::new();
                let mut wires = Vec::new();
                let mut ok = true;
                let mut wrote = false;
                for b in bodies {
                    let payload = payload_of(&trial, b);
                    let mut id: Id = [0xEE; 32];
                    id[0..2].copy_from_slice(&b.id_hi.to_be_bytes());
                    id[2..10].copy_from_slice(&next_id.to_be_bytes());
                    next_id += 1;
                    let kind = Kind::Basic(u32::from(b.prio % 3));
                    pubs.push(Publish {
                        id,
                        kind,
                        payload: payload.clone(),
                    });
                    let gid = *rep.gid.as_array();
                    wires.push(WireCmd {
                        id,
                        kind,
                        parents: vec![(gid, 0)],
                        payload: payload.clone(),
                    });
                    match eval_rule(&id, &payload, &mut trial) {
                        Verdict::Accepted => {
                            if !payload.ops.is_empty() {
                                wrote = true;
                            }
                        }
                        _ => {
                            ok = false;
                            break;
                        }
                    }
                }
                let mut sink = RecSink::default();
                let mut msgs = MsgSink::default();
                let r = sessions[s].action(
                    &rep.client,
                    &mut sink,
                    &mut msgs,
                    ActionScript {
                        init: false,
                        dump: false,
                        publishes: pubs.clone(),
                    },
                );
                match (r, ok) {
                    (Ok(()), true) => {
                        for (k, _) in base.iter() {
                            if views[s].contains_key(k) && !trial.contains_key(k) {
                                deleted_committed += 1;
                            }
                        }
                        views[s] = trial;
                        ensure!(msgs.msgs.len() == pubs.len(), "C14: a session action did not emit one message per published command", "{what}: {} vs {}", msgs.msgs.len(), pubs.len());
                        for (m, wc) in msgs.msgs.iter().zip(wires.iter()) {
                            outbox.push((m.clone(), wc.clone()));
                        }
                        let effs: Vec<Eff> = sink.committed_effects();
                        let want: Vec<Eff> = pubs.iter().map(|p| Eff { id: p.id, place: Place::OffGraph }).collect();
                        ensure!(effs == want, "C14: effects of a session action differ from its published commands", "{what}");
                    }
                    (Err(ClientError::PolicyError(PolicyError::Rejected)), false) => {
                        if wrote {
                            failed_after_write += 1;
                        }
                        ensure!(sink.committed_effects().is_empty(), "C14: a failed session action committed effects", "{what}");
                        ensure!(!sink.log.contains(&SinkEv::Commit), "C14: a failed session action committed effects", "{what}");
                        ensure!(msgs.rollbacks >= 1, "C14: messages of a failed session action were not rolled back", "{what}");
                    }
                    (r, ok) => fail!(
                        "C14: session action outcome differs from the model",
                        "{what}: got {} want {}",
                        r.map(|_| "Ok".to_string()).unwrap_or_else(|e| e.to_string()),
                        if ok { "Ok" } else { "Rejected" }
                    ),
                }
            }
            SOp::Receive(..) | SOp::ReceiveFresh(..) => {
                let (s, bytes, wc) = match op {
                    SOp::Receive(s, m) => {
                        if outbox.is_empty() {
                            continue;
                        }
                        let (b, wcmd) = outbox[vcommon::idx(*m, outbox.len())].clone();
                        (*s as usize % 2, b, wcmd)
                    }
                    SOp::ReceiveFresh(s, b) => {
                        let s = *s as usize % 2;
                        let payload = payload_of(&views[s], b);
                        let mut id: Id = [0xDD; 32];
                        id[2..10].copy_from_slice(&next_id.to_be_bytes());
                        next_id += 1;
                        let wcmd = WireCmd {
                            id,
                            kind: Kind::Basic(0),
                            parents: vec![(*rep.gid.as_array(), 0)],
                            payload,
                        };
                        let mut bytes = id.to_vec();
                        bytes.extend(postcard::to_allocvec(&wcmd).unwrap());
                        (s, bytes, wcmd)
                    }
                    _ => unreachable!(),
                };
                let mut trial = views[s].clone();
                let verdict = eval_rule(&wc.id, &wc.payload, &mut trial);
                let mut sink = RecSink::default();
                let r = sessions[s].receive(&rep.client, &mut sink, &bytes);
                match (r, verdict) {
                    (Ok(()), Verdict::Accepted) => {
                        views[s] = trial;
                        ensure!(
                            sink.committed_effects() == vec![Eff { id: wc.id, place: Place::OffGraph }],
                            "C14: effects of a received session command are wrong",
                            "{what}"
                        );
                    }
                    (Err(ClientError::PolicyError(PolicyError::Rejected)), Verdict::Rejected | Verdict::WroteThenRejected) => {
                        rejected_receive += 1;
                        if verdict == Verdict::WroteThenRejected && !wc.payload.ops.is_empty() {
                            failed_after_write += 1;
                        }
                        ensure!(sink.committed_effects().is_empty(), "C14: a rejected session command committed effects", "{what}");
                    }
                    (r, v) => fail!(
                        "C14: receiving a session command gave a different verdict than the model (exact query differs)",
                        "{what}: command {} guard {:?}: got {} want {v:?}; model view {}",
                        short(&wc.id),
                        wc.payload.guard,
                        r.map(|_| "Ok".to_string()).unwrap_or_else(|e| e.to_string()),
                        fmt_facts(&views[s])
                    ),
                }
            }
            SOp::ReceiveGarbage(s, bytes) => {
                let s = *s as usize % 2;
                let mut sink = RecSink::default();
                let r = sessions[s].receive(&rep.client, &mut sink, bytes);
                ensure!(r.is_err(), "C14: garbage was accepted as a session command", "{what}: {bytes:?}");
                ensure!(sink.committed_effects().is_empty(), "C14: garbage committed effects", "{what}");
            }
        }
        // full prefix scan of both sessions against the model, in key order (scan() checks the order)
        for s in 0..2 {
            let got = dump(&mut rep, &mut sessions[s])?;
            ensure!(
                got == views[s],
                "C14: a session's fact view differs from committed facts overlaid with its own writes",
                "{what} session {s}:\n got  {}\n want {}",
                fmt_facts(&got),
                fmt_facts(&views[s])
            );
        }
    }
    let after = rep.obs().map_err(|e| Failure::new("observation failed", e))?;
    ensure!(after == before, "C14: session operations changed the graph's heads, facts or hello head", "");
    let ids_after = rep.committed_ids().map_err(|e| Failure::new("C11: committed graph walk failed", e))?;
    ensure!(ids_after == ids_before, "C14: session operations changed the committed graph", "");
    if failed_after_write > 0 {
        info.label("failed_after_write");
    }
    if deleted_committed > 0 {
        info.label("deleted_committed_fact");
    }
    if rejected_receive > 0 {
        info.label("rejected_receive");
    }
    if failed_after_write > 0 || deleted_committed > 0 {
        info.nontrivial();
    }
    Ok(())
}

pub fn run(ctx: &Ctx) -> ! {
    let mut rep = Report::new(ctx, "exploration");
    rep.assume("reads inside a session are made by the policy: guards are exact queries, a publish-free action dumps the full prefix scan");
    rep.explore(
        "session_overlay",
        "a committed graph (single or multi head) and 1-25 ops on two sessions: actions publishing 1-3 commands (inserts, deletes of \
         committed facts, order-sensitive writes, guards, poison), receives of messages other sessions produced, of fresh commands \
         (guards not forced to pass) and of garbage, session reopen; after every op both sessions' full fact scans (ascending key \
         order) must equal committed facts overlaid with their own writes; verdicts (exact queries) must match; failed ops leave \
         the view unchanged; heads/facts/committed ids of the graph never change; non-trivial = a failing op after writes or a \
         delete of a committed fact",
        case,
        ctx.pick(3000, 120_000),
        check,
    );
    rep.explore(
        "long_lived_session",
        "the same after 0-700 plain actions (3 overwriting inserts each over 12 keys) on one session and a sweep of 200-1300 rounds of \
         (one successful 1-write action, one failing action that writes 1-3 facts first): a long-lived session whose write log holds \
         hundreds to thousands of entries of which few are live, with a failing operation at every log length; followed by 1-25 \
         generated ops",
        long_case,
        ctx.pick(400, 12_000),
        check,
    );
    rep.finish()
}
