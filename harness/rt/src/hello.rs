//! C19 (hello notifications never suppress a needed sync) and C20 (peer caches).
use std::collections::BTreeSet;

use aranya_runtime::{PeerCache, Storage, StorageProvider};
use proptest::prelude::*;
use serde::{Deserialize, Serialize};
use vcommon::{CaseInfo, CheckResult, Ctx, Failure, Report, ensure};

use crate::{
    policy::{ActionScript, Publish, addr},
    replica::{MemReplica, Replica, owned_of},
    scenario::{Flags, HONEST, Prng, Script, frontier_sorted, run_script, script_strategy, short, shorts, target_set},
    world::{Body, Id, Kind, Payload, Step, World, merge_id, strategies},
};

#[derive(Clone, Debug, Serialize, Deserialize)]
pub struct HelloCase {
    pub recipe: Vec<Step>,
    pub x_subset: u16,
    pub y_subset: u16,
    pub x_script: Script,
    pub y_script: Script,
    /// 0 none, 1 action on X, 2 action on Y, 3 both
    pub actions: u8,
    pub body: Body,
    /// make Y = X's set, or X ⊇ Y by construction (biases toward "no sync needed")
    pub relation: u8,
}

fn hello_case() -> impl Strategy<Value = HelloCase> {
    (
        strategies::recipe(30, 1, 1),
        any::<u16>(),
        any::<u16>(),
        script_strategy(),
        script_strategy(),
        prop_oneof![3 => Just(0u8), 1 => Just(1u8), 1 => Just(2u8), 1 => Just(3u8)],
        strategies::body(0),
        0u8..5,
    )
        .prop_map(|(recipe, x_subset, y_subset, x_script, y_script, actions, body, relation)| HelloCase {
            recipe,
            x_subset,
            y_subset,
            x_script,
            y_script,
            actions,
            body,
            relation,
        })
}

/// Runs one action publishing one plain command; returns the world indices it committed.
fn do_action<SP: StorageProvider>(rep: &mut Replica<SP>, w: &mut World, set: &mut BTreeSet<usize>, b: &Body, salt: u16) -> CheckResult {
    let f = frontier_sorted(w, set);
    let mut q: std::collections::VecDeque<usize> = f.iter().copied().collect();
    while q.len() > 1 {
        let l = q.pop_front().unwrap();
        let r = q.pop_front().unwrap();
        let id = merge_id(&w.cmds[l].id, &w.cmds[r].id);
        let mi = match w.by_id.get(&id) {
            Some(i) => *i,
            None => {
                let (a, bb) = if w.cmds[l].id < w.cmds[r].id { (l, r) } else { (r, l) };
                w.push(id, Kind::Merge, vec![a, bb], Payload::empty())
            }
        };
        set.insert(mi);
        q.push_back(mi);
    }
    let head = q[0];
    let id = w.fresh_id(b.id_hi ^ salt);
    let kind = Kind::Basic(u32::from(b.prio % 3));
    let i = w.push(id, kind, vec![head], Payload::empty());
    rep.action(ActionScript {
        init: false,
        dump: false,
        publishes: vec![Publish {
            id,
            kind,
            payload: Payload::empty(),
        }],
    })
    .map_err(|e| Failure::new("C07: action failed", e.to_string()))?;
    set.insert(i);
    Ok(())
}

fn check_c19(c: &HelloCase, info: &mut CaseInfo) -> CheckResult {
    let mut w = World::from_recipe(&c.recipe, HONEST);
    let mut sx = target_set(&w, c.x_subset);
    let mut sy = match c.relation {
        0 => sx.clone(),
        1 => {
            // Y below X: ancestors of one element of X
            let v: Vec<usize> = sx.iter().copied().collect();
            let mut rng = Prng(u64::from(c.y_subset));
            w.ancestors_or_self(v[rng.below(v.len())])
        }
        _ => target_set(&w, c.y_subset),
    };
    if c.relation == 2 {
        sx.extend(sy.iter().copied()); // X ⊇ Y
    }
    if c.relation >= 5 {
        // X holds everything; Y lacks 1-3 of X's heads (and nothing else): with many heads this probes
        // whether every head takes part in the advertised hello head
        sx = (0..w.len()).filter(|i| w.honest(*i)).collect();
        sy = sx.clone();
        let tips: Vec<usize> = w.frontier(&sx);
        let mut rng = Prng(u64::from(c.y_subset) ^ 0xFA17);
        let drops = 1 + rng.below(3);
        for _ in 0..drops {
            if tips.len() > 1 {
                sy.remove(&tips[rng.below(tips.len())]);
            }
        }
        if tips.len() > 10 {
            info.label("more_than_10_heads");
        }
    }
    let mut x = MemReplica::new_mem();
    let mut y = MemReplica::new_mem();
    run_script(&mut x, &w, &sx, &c.x_script, Flags::default())?;
    run_script(&mut y, &w, &sy, &c.y_script, Flags::default())?;
    if c.actions & 1 != 0 {
        do_action(&mut x, &mut w, &mut sx, &c.body, 0x1111)?;
        info.label("x_action");
    }
    if c.actions & 2 != 0 {
        do_action(&mut y, &mut w, &mut sy, &c.body, 0x2222)?;
        info.label("y_action");
    }
    // a replica without the graph always decides to sync
    let mut empty = MemReplica::new_mem();
    direction("x<-y", &mut x, &mut y, &mut empty, &sx, &sy, info)?;
    direction("y<-x", &mut y, &mut x, &mut empty, &sy, &sx, info)?;
    Ok(())
}


#[allow(clippy::too_many_arguments)]
fn direction(
    name: &str,
    a: &mut MemReplica,
    b: &mut MemReplica,
    empty: &mut MemReplica,
    sa: &BTreeSet<usize>,
    sb: &BTreeSet<usize>,
    info: &mut CaseInfo,
) -> CheckResult {
        let hb = b.hello().map_err(|e| Failure::new("C19: hello_head failed", e))?;
        let ha = a.hello().map_err(|e| Failure::new("C19: hello_head failed", e))?;
        let decision = a
            .client
            .should_sync_on_hello(a.gid, addr(&hb.0, hb.1), &mut a.bufs.traversal.primary)
            .map_err(|e| Failure::new("C19: should_sync_on_hello failed", e.to_string()))?;
        let ids_a = a.committed_ids().map_err(|e| Failure::new("C11: committed graph walk failed", e))?;
        let walk_b = b.walk().map_err(|e| Failure::new("C11: committed graph walk failed", e))?;
        let ids_b: BTreeSet<Id> = walk_b.keys().copied().collect();
        let subset = ids_b.is_subset(&ids_a);
        debug_assert_eq!(subset, sb.is_subset(sa));
        if !decision {
            info.label("decided_no_sync");
            let missing: Vec<Id> = ids_b.difference(&ids_a).copied().collect();
            // Listed finding: the peer holds a materialized merge (as a head, left behind by a truncated sync)
            // whose parents this replica holds as heads; both compute the same (synthetic) hello head.
            let only_merges = !missing.is_empty() && missing.iter().all(|m| crate::replica::kind_of_bytes(&walk_b[m].bytes) == Some(Kind::Merge));
            ensure!(
                subset || !only_merges,
                "C19: sync suppressed although the peer holds materialized merge commands this replica lacks (same synthetic hello head)",
                "{name}: lacking merges [{}]; own heads [{}] peer heads [{}]",
                shorts(&missing),
                shorts(&a.heads().unwrap_or_default().iter().map(|h| h.0).collect::<Vec<_>>()),
                shorts(&b.heads().unwrap_or_default().iter().map(|h| h.0).collect::<Vec<_>>())
            );
            ensure!(
                subset,
                "C19: a hello notification suppressed a sync although the peer holds commands this replica lacks",
                "{name}: lacking [{}]; own heads [{}] peer heads [{}] own hello {} peer hello {}",
                shorts(&missing),
                shorts(&a.heads().unwrap_or_default().iter().map(|h| h.0).collect::<Vec<_>>()),
                shorts(&b.heads().unwrap_or_default().iter().map(|h| h.0).collect::<Vec<_>>()),
                short(&ha.0),
                short(&hb.0)
            );
        }
        if !subset {
            info.label("peer_has_more");
        }
        if !decision || !subset {
            info.nontrivial();
        }
        if a.heads().ok() == b.heads().ok() {
            info.label("same_heads");
            ensure!(ha == hb, "C19: replicas with the same head set compute different hello heads", "{name}");
            ensure!(!decision, "C01: same head set but a sync was requested", "{name}") ;
        }
        let d0 = empty
            .client
            .should_sync_on_hello(empty.gid, addr(&hb.0, hb.1), &mut empty.bufs.traversal.primary)
            .map_err(|e| Failure::new("C19: should_sync_on_hello failed", e.to_string()))?;
        ensure!(d0, "C19: a replica without the graph decided not to sync", "{name}");
        Ok(())
}

pub fn run_c19(ctx: &Ctx) -> ! {
    let mut rep = Report::new(ctx, "exploration");
    rep.assume("states are reached by delivering downward-closed subsets of one world (what truncated syncs leave behind) and by actions (collapse)");
    rep.explore(
        "hello_pairs",
        "pairs (X,Y) of replicas of one world: equal sets, Y below X, X superset of Y, independent subsets (incl. a replica holding \
         a merge command as a head while the other holds its parents as heads), optionally followed by an action on either side; \
         oracle: should_sync_on_hello(peer hello) == false implies the peer's walked committed ids are a subset of the own ones \
         (both directions); equal head sets imply equal hello heads; a replica without the graph always syncs; non-trivial = a \
         'no sync' decision or a peer that holds more",
        hello_case,
        ctx.pick(3000, 120_000),
        check_c19,
    );
    rep.explore(
        "hello_many_heads",
        "worlds dominated by fans (2-40 sibling children of one tip) and combs, so that replicas hold up to dozens of heads; X \
         holds everything, Y lacks 1-3 of X's heads (or the generic relations); same oracle; non-trivial as above; label \
         more_than_10_heads counts cases beyond the peer-cache capacity",
        || {
            (
                prop::collection::vec(
                    prop_oneof![
                        3 => (any::<u16>(), 8u16..40, strategies::body(0)).prop_map(|(a, n, b)| Step::Fan(a, n, b)),
                        1 => (any::<u16>(), 2u16..12, strategies::body(0)).prop_map(|(a, n, b)| Step::Comb(a, n, b)),
                        2 => (any::<u16>(), strategies::body(0)).prop_map(|(a, b)| Step::Extend(a, b)),
                        1 => (any::<u16>(), any::<u16>(), any::<bool>()).prop_map(|(a, b, c)| Step::Merge(a, b, c)),
                    ],
                    1..5,
                ),
                any::<u16>(),
                any::<u16>(),
                script_strategy(),
                script_strategy(),
                prop_oneof![4 => Just(0u8), 1 => Just(1u8), 1 => Just(2u8)],
                strategies::body(0),
                prop_oneof![3 => Just(5u8), 1 => 0u8..5],
            )
                .prop_map(|(recipe, x_subset, y_subset, x_script, y_script, actions, body, relation)| HelloCase {
                    recipe,
                    x_subset,
                    y_subset,
                    x_script,
                    y_script,
                    actions,
                    body,
                    relation,
                })
        },
        ctx.pick(1500, 60_000),
        check_c19,
    );
    rep.finish()
}

// ---------------------------------------------------------------------------------------------
// C20

#[derive(Clone, Debug, Serialize, Deserialize)]
pub struct CacheCase {
    pub recipe: Vec<Step>,
    pub subset: u16,
    pub script: Script,
    /// commands offered to the cache: selector + kind (0/1 committed, 2 any world command, 3 fabricated, 4 uncommitted-but-flushed)
    pub adds: Vec<(u16, u8)>,
}

fn cache_case() -> impl Strategy<Value = CacheCase> {
    (
        strategies::recipe(45, 1, 1),
        prop_oneof![1 => Just(0u16), 2 => any::<u16>()],
        script_strategy(),
        prop::collection::vec((any::<u16>(), 0u8..5), 1..40),
    )
        .prop_map(|(recipe, subset, script, adds)| CacheCase { recipe, subset, script, adds })
}

fn check_c20(c: &CacheCase, info: &mut CaseInfo) -> CheckResult {
    let w = World::from_recipe(&c.recipe, HONEST);
    let set = target_set(&w, c.subset);
    let mut rep = MemReplica::new_mem();
    run_script(&mut rep, &w, &set, &c.script, Flags::default())?;
    // commands delivered and flushed in an open transaction but never committed
    let mut open = rep.trx();
    let mut pending: BTreeSet<usize> = BTreeSet::new();
    {
        let mut view = set.clone();
        for _ in 0..6 {
            let next = (0..w.len()).find(|i| !view.contains(i) && w.honest(*i) && w.cmds[*i].parents.iter().all(|p| view.contains(p)));
            let Some(i) = next else { break };
            rep.add(&mut open, &[owned_of(&w, i)]).map_err(|e| Failure::new("C06: honest command refused by add_commands", e.to_string()))?;
            view.insert(i);
            pending.insert(i);
        }
        rep.flush(&mut open).map_err(|e| Failure::new("flush failed", e.to_string()))?;
    }
    let members: Vec<usize> = set.iter().copied().collect();
    let mut cache = PeerCache::new();
    let mut model: Vec<usize> = Vec::new();
    let (mut removed_anc, mut ignored_anc, mut ignored_foreign, mut full) = (0, 0, 0, 0);
    for (k, (sel, kind)) in c.adds.iter().enumerate() {
        let (id, mc, idx): (Id, u64, Option<usize>) = match kind {
            0 | 1 => {
                let i = members[vcommon::idx(*sel, members.len())];
                (w.cmds[i].id, w.cmds[i].max_cut, Some(i))
            }
            2 => {
                let i = vcommon::idx(*sel, w.len());
                (w.cmds[i].id, w.cmds[i].max_cut, Some(i))
            }
            3 => {
                let i = members[vcommon::idx(*sel, members.len())];
                let mut id = w.cmds[i].id;
                id[12] ^= 0x77;
                (id, w.cmds[i].max_cut, None)
            }
            _ => {
                let p: Vec<usize> = pending.iter().copied().collect();
                if p.is_empty() {
                    continue;
                }
                let i = p[vcommon::idx(*sel, p.len())];
                (w.cmds[i].id, w.cmds[i].max_cut, Some(i))
            }
        };
        {
            let st = rep.client.provider().get_storage(rep.gid).map_err(|e| Failure::new("get_storage", e.to_string()))?;
            cache
                .add_command(st, addr(&id, mc), &mut rep.bufs.traversal.primary)
                .map_err(|e| Failure::new("C20: add_command failed", e.to_string()))?;
        }
        // model
        match idx {
            Some(i) if set.contains(&i) => {
                if model.iter().any(|e| w.is_anc_or_eq(i, *e)) {
                    ignored_anc += 1;
                } else {
                    let before = model.len();
                    model.retain(|e| !w.is_proper_anc(*e, i));
                    removed_anc += before - model.len();
                    if model.len() < 10 {
                        model.push(i);
                    } else {
                        full += 1;
                    }
                }
            }
            _ => ignored_foreign += 1,
        }
        let got: BTreeSet<Id> = cache.heads().iter().map(|h| *h.id.as_array()).collect();
        let want: BTreeSet<Id> = model.iter().map(|i| w.cmds[*i].id).collect();
        ensure!(cache.heads().len() <= 10, "C20: peer cache holds more than ten entries", "{}", cache.heads().len());
        ensure!(got.len() == cache.heads().len(), "C20: peer cache holds a duplicate entry", "add#{k}");
        // structural invariants first (independent of the model's bookkeeping)
        for h in cache.heads() {
            let hid = *h.id.as_array();
            let Some(hi) = w.by_id.get(&hid) else {
                return Err(Failure::new("C20: peer cache holds a command that is not in the local graph", short(&hid)));
            };
            ensure!(set.contains(hi), "C20: peer cache holds a command that is not committed locally", "add#{k}: {}", short(&hid));
            ensure!(h.max_cut.get() == w.cmds[*hi].max_cut, "C20: peer cache entry has the wrong max cut", "{}", short(&hid));
        }
        let hv: Vec<usize> = got.iter().map(|i| w.by_id[i]).collect();
        for a in &hv {
            for b in &hv {
                ensure!(a == b || !w.is_proper_anc(*a, *b), "C20: a peer cache entry is an ancestor of another entry", "add#{k}: {} < {}", short(&w.cmds[*a].id), short(&w.cmds[*b].id));
            }
        }
        ensure!(
            got == want,
            "C20: peer cache contents differ from the antichain model",
            "add#{k} of {}: got [{}] want [{}]",
            short(&id),
            shorts(&got.iter().copied().collect::<Vec<_>>()),
            shorts(&want.iter().copied().collect::<Vec<_>>())
        );
    }
    drop(open);
    if removed_anc > 0 {
        info.label("replaced_ancestor");
    }
    if ignored_anc > 0 {
        info.label("ignored_ancestor");
    }
    if ignored_foreign > 0 {
        info.label("ignored_not_committed");
    }
    if full > 0 {
        info.label("full_cache");
    }
    if removed_anc > 0 && ignored_anc > 0 {
        info.nontrivial();
    }
    Ok(())
}

pub fn run_c20(ctx: &Ctx) -> ! {
    let mut rep = Report::new(ctx, "exploration");
    rep.assume("when the cache is full a further incomparable command is dropped (the statement only bounds the size)");
    rep.explore(
        "peer_cache",
        "a committed graph (world subset) plus an open transaction with flushed-but-uncommitted commands; 1-40 add_command calls \
         with committed commands, arbitrary world commands (incl. not delivered), fabricated ids and uncommitted commands; oracle: \
         antichain model with capacity 10 (ignore not-committed and ancestors-or-equal of an entry, remove exactly the ancestors \
         of the new entry), plus structural invariants (<= 10, all committed, pairwise non-ancestor); non-trivial = at least one \
         ancestor replaced and one ancestor ignored",
        cache_case,
        ctx.pick(3000, 120_000),
        check_c20,
    );
    rep.explore(
        "peer_cache_wide",
        "same on bushy worlds with many add_command calls so that the capacity of 10 incomparable entries is reached",
        || {
            (
                strategies::recipe(90, 0, 0),
                Just(0u16),
                script_strategy(),
                prop::collection::vec((any::<u16>(), 0u8..2), 30..120),
            )
                .prop_map(|(recipe, subset, script, adds)| CacheCase { recipe, subset, script, adds })
        },
        ctx.pick(600, 20_000),
        check_c20,
    );
    rep.finish()
}
