mod c10;
mod c11;
mod c14;
mod hello;
mod policy;
mod props;
mod replica;
mod scenario;
mod sync;
mod txn;
mod world;

fn main() {
    let ctx = vcommon::Ctx::from_args();
    ctx.watchdog(ctx.pick(1500, 4 * 3600));
    match ctx.prop.as_str() {
        "C01" => props::run_c01(&ctx),
        "C02" => props::run_c02(&ctx),
        "C03" => props::run_c03(&ctx),
        "C04" => props::run_c04(&ctx),
        "C05" => props::run_c05(&ctx),
        "C06" => props::run_c06(&ctx),
        "C08" => props::run_c08(&ctx),
        "C09" => props::run_c09(&ctx),
        "C10" => c10::run(&ctx),
        "C11" => c11::run(&ctx),
        "C14" => c14::run(&ctx),
        "C16" => sync::run(&ctx, "C16"),
        "C19" => hello::run_c19(&ctx),
        "C20" => hello::run_c20(&ctx),
        "C17" => sync::run(&ctx, "C17"),
        p => {
            println!("INCONCLUSIVE vh-rt does not serve {p}");
            std::process::exit(2);
        }
    }
}
