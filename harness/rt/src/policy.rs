//! AuditPolicy: a `Policy`/`PolicyStore` that interprets world payloads, logs every evaluation,
//! and exposes the fact view an action observes (DESIGN.md section 1.2).

use std::cell::RefCell;

use aranya_runtime::{
    ActionPlacement, Address, CmdId, Command, CommandPlacement, FactPerspective, Keys, MaxCut, MergeIds,
    Perspective, Policy, PolicyError, PolicyId, PolicyStore, Prior, Priority, Query, Sink,
};
use serde::{Deserialize, Serialize};

use crate::world::{self, FKey, FactView, Facts, Id, Kind, NAMES, Payload, Verdict};

/// What goes into `Command::bytes()`.
#[derive(Clone, Debug, Serialize, Deserialize)]
pub struct WireCmd {
    pub id: Id,
    pub kind: Kind,
    pub parents: Vec<(Id, u64)>,
    pub payload: Payload,
}

pub fn priority_of(k: Kind) -> Priority {
    match k {
        Kind::Init => Priority::Init,
        Kind::Merge => Priority::Merge,
        Kind::Finalize => Priority::Finalize,
        Kind::Basic(n) => Priority::Basic(n),
    }
}

pub fn addr(id: &Id, max_cut: u64) -> Address {
    Address {
        id: CmdId::from_bytes(*id),
        max_cut: MaxCut::new(max_cut),
    }
}

pub fn prior_of(parents: &[(Id, u64)]) -> Prior<Address> {
    match parents {
        [] => Prior::None,
        [p] => Prior::Single(addr(&p.0, p.1)),
        [l, r] => Prior::Merge(addr(&l.0, l.1), addr(&r.0, r.1)),
        _ => unreachable!("at most two parents"),
    }
}

pub const POLICY_BYTES: [u8; 8] = [0u8; 8];

/// An owned command handed to `add_commands`.
#[derive(Clone, Debug)]
pub struct OwnedCmd {
    pub id: CmdId,
    pub priority: Priority,
    pub parent: Prior<Address>,
    pub policy: Option<Vec<u8>>,
    pub data: Vec<u8>,
}

impl OwnedCmd {
    pub fn from_wire(w: &WireCmd) -> Self {
        OwnedCmd {
            id: CmdId::from_bytes(w.id),
            priority: priority_of(w.kind),
            parent: prior_of(&w.parents),
            policy: if w.kind == Kind::Init { Some(POLICY_BYTES.to_vec()) } else { None },
            data: postcard::to_allocvec(w).expect("serialize wire cmd"),
        }
    }
}

impl Command for OwnedCmd {
    fn priority(&self) -> Priority {
        self.priority.clone()
    }
    fn id(&self) -> CmdId {
        self.id
    }
    fn parent(&self) -> Prior<Address> {
        self.parent
    }
    fn policy(&self) -> Option<&[u8]> {
        self.policy.as_deref()
    }
    fn bytes(&self) -> &[u8] {
        &self.data
    }
}

/// Borrowed command returned by `Policy::merge`.
pub struct BufCmd<'a> {
    id: CmdId,
    priority: Priority,
    parent: Prior<Address>,
    data: &'a [u8],
}

impl Command for BufCmd<'_> {
    fn priority(&self) -> Priority {
        self.priority.clone()
    }
    fn id(&self) -> CmdId {
        self.id
    }
    fn parent(&self) -> Prior<Address> {
        self.parent
    }
    fn policy(&self) -> Option<&[u8]> {
        None
    }
    fn bytes(&self) -> &[u8] {
        self.data
    }
}

#[derive(Clone, Copy, Debug, PartialEq, Eq, Serialize, Deserialize)]
pub enum Place {
    Origin,
    Braid,
    OffGraph,
    Action,
}

#[derive(Clone, Debug, PartialEq, Eq)]
pub struct Audit {
    pub id: Id,
    pub kind: Kind,
    pub place: Place,
    pub verdict: Verdict,
}

#[derive(Clone, Debug, PartialEq, Eq)]
pub struct Eff {
    pub id: Id,
    pub place: Place,
}

/// One command an action publishes.
#[derive(Clone, Debug, Serialize, Deserialize)]
pub struct Publish {
    pub id: Id,
    pub kind: Kind,
    pub payload: Payload,
}

#[derive(Clone, Debug, Default, Serialize, Deserialize)]
pub struct ActionScript {
    /// publish the graph's init command (new_graph only)
    pub init: bool,
    /// record the full fact view the action observes before publishing
    pub dump: bool,
    pub publishes: Vec<Publish>,
}

pub struct AuditPolicy {
    /// when false, rule evaluations are not logged (large scenario runs that do not inspect the log)
    pub record: std::cell::Cell<bool>,
    pub log: RefCell<Vec<Audit>>,
    pub dumps: RefCell<Vec<Facts>>,
    /// (parent address seen by an action, ids it published)
    pub action_parents: RefCell<Vec<Prior<Address>>>,
}

impl Default for AuditPolicy {
    fn default() -> Self {
        AuditPolicy {
            record: std::cell::Cell::new(true),
            log: RefCell::default(),
            dumps: RefCell::default(),
            action_parents: RefCell::default(),
        }
    }
}

struct View<'a, F: FactPerspective>(&'a mut F, &'a RefCell<bool>);

fn to_keys(k: &FKey) -> Keys {
    k.keys.iter().map(|c| c.clone().into_boxed_slice()).collect()
}

impl<F: FactPerspective> FactView for View<'_, F> {
    fn get(&self, k: &FKey) -> Option<Vec<u8>> {
        let keys = to_keys(k);
        match self.0.query(k.name_str(), &keys) {
            Ok(v) => v.map(|b| b.to_vec()),
            Err(_) => {
                *self.1.borrow_mut() = true;
                None
            }
        }
    }
    fn put(&mut self, k: FKey, v: Vec<u8>) {
        if self.0.insert(k.name_str().into(), to_keys(&k), v.into_boxed_slice()).is_err() {
            *self.1.borrow_mut() = true;
        }
    }
    fn del(&mut self, k: FKey) {
        if self.0.delete(k.name_str().into(), to_keys(&k)).is_err() {
            *self.1.borrow_mut() = true;
        }
    }
}

/// Full scan of a fact view: prefix query `[]` for every name.
pub fn scan<Q: Query>(q: &Q) -> Result<Facts, String> {
    let mut out = Facts::new();
    for (ni, name) in NAMES.iter().enumerate() {
        let it = q.query_prefix(name, &[]).map_err(|e| format!("query_prefix({name}): {e}"))?;
        let mut last: Option<Vec<Vec<u8>>> = None;
        for f in it {
            let f = f.map_err(|e| format!("query_prefix({name}) item: {e}"))?;
            let keys: Vec<Vec<u8>> = f.key.iter().map(|b| b.to_vec()).collect();
            if let Some(l) = &last {
                if *l >= keys {
                    return Err(format!("prefix scan of {name} not in strictly ascending key order: {l:?} then {keys:?}"));
                }
            }
            last = Some(keys.clone());
            out.insert(
                FKey {
                    name: ni as u8,
                    keys,
                },
                f.value.to_vec(),
            );
        }
    }
    Ok(out)
}

impl AuditPolicy {
    fn run_rule(
        &self,
        w: &WireCmd,
        facts: &mut impl FactPerspective,
        sink: &mut impl Sink<Eff>,
        place: Place,
    ) -> Result<(), PolicyError> {
        if matches!(w.kind, Kind::Merge | Kind::Init) {
            if self.record.get() {
                self.log.borrow_mut().push(Audit {
                    id: w.id,
                    kind: w.kind,
                    place,
                    verdict: Verdict::Accepted,
                });
            }
            return Ok(());
        }

        let io_err = RefCell::new(false);
        let verdict = world::eval_rule(&w.id, &w.payload, &mut View(facts, &io_err));
        if *io_err.borrow() {
            return Err(PolicyError::Write);
        }
        if self.record.get() {
            self.log.borrow_mut().push(Audit {
                id: w.id,
                kind: w.kind,
                place,
                verdict,
            });
        }
        match verdict {
            Verdict::Accepted => {
                sink.consume(Eff { id: w.id, place });
                Ok(())
            }
            Verdict::WroteThenRejected => {
                // the effect is emitted before the rule fails: the runtime must roll it back
                sink.consume(Eff { id: w.id, place });
                Err(PolicyError::Rejected)
            }
            Verdict::Rejected => Err(PolicyError::Rejected),
        }
    }
}

impl Policy for AuditPolicy {
    type Action<'a> = ActionScript;
    type Effect = Eff;
    type Command<'a> = BufCmd<'a>;

    fn serial(&self) -> u32 {
        0
    }

    fn call_rule(
        &self,
        command: &impl Command,
        facts: &mut impl FactPerspective,
        sink: &mut impl Sink<Eff>,
        placement: CommandPlacement,
    ) -> Result<(), PolicyError> {
        let w: WireCmd = postcard::from_bytes(command.bytes()).map_err(|_| PolicyError::Read)?;
        if w.id != *command.id().as_array() {
            // the runtime handed us bytes under a different id than they were stored with
            return Err(PolicyError::InternalError);
        }
        let place = match placement {
            CommandPlacement::OnGraphAtOrigin => Place::Origin,
            CommandPlacement::OnGraphInBraid => Place::Braid,
            CommandPlacement::OffGraph => Place::OffGraph,
        };
        self.run_rule(&w, facts, sink, place)
    }

    fn call_action(
        &self,
        action: ActionScript,
        facts: &mut impl Perspective,
        sink: &mut impl Sink<Eff>,
        placement: ActionPlacement,
    ) -> Result<(), PolicyError> {
        let place = match placement {
            ActionPlacement::OnGraph => Place::Action,
            ActionPlacement::OffGraph => Place::OffGraph,
        };
        let mut parent = facts.head_address()?;
        self.action_parents.borrow_mut().push(parent);
        if action.dump {
            let d = scan(&*facts).map_err(|_| PolicyError::Read)?;
            self.dumps.borrow_mut().push(d);
        }
        if action.init {
            let w = WireCmd {
                id: world::init_id(),
                kind: Kind::Init,
                parents: vec![],
                payload: Payload::empty(),
            };
            let c = OwnedCmd::from_wire(&w);
            self.run_rule(&w, facts, sink, place)?;
            facts.add_command(&c).map_err(|_| PolicyError::Write)?;
            parent = Prior::Single(Address {
                id: c.id,
                max_cut: MaxCut::new(0),
            });
        }
        for p in &action.publishes {
            let pa = match parent {
                Prior::Single(a) => a,
                _ => return Err(PolicyError::InternalError),
            };
            let w = WireCmd {
                id: p.id,
                kind: p.kind,
                parents: vec![(*pa.id.as_array(), pa.max_cut.get())],
                payload: p.payload.clone(),
            };
            let c = OwnedCmd::from_wire(&w);
            self.run_rule(&w, facts, sink, place)?;
            facts.add_command(&c).map_err(|_| PolicyError::Write)?;
            if place == Place::Action {
                parent = Prior::Single(Address {
                    id: c.id,
                    max_cut: pa.max_cut.checked_add(1).ok_or(PolicyError::InternalError)?,
                });
            }
            // off graph (sessions) every command names the same fixed session parent
        }
        Ok(())
    }

    fn merge<'a>(&self, target: &'a mut [u8], ids: MergeIds) -> Result<BufCmd<'a>, PolicyError> {
        let (l, r): (Address, Address) = ids.into();
        let id = world::merge_id(l.id.as_array(), r.id.as_array());
        let w = WireCmd {
            id,
            kind: Kind::Merge,
            parents: vec![(*l.id.as_array(), l.max_cut.get()), (*r.id.as_array(), r.max_cut.get())],
            payload: Payload::empty(),
        };
        let data = postcard::to_slice(&w, target).map_err(|_| PolicyError::Write)?;
        Ok(BufCmd {
            id: CmdId::from_bytes(id),
            priority: Priority::Merge,
            parent: Prior::Merge(l, r),
            data,
        })
    }
}

#[derive(Default)]
pub struct AuditStore {
    pub policy: std::rc::Rc<AuditPolicy>,
}

impl PolicyStore for AuditStore {
    type Policy = AuditPolicy;
    type Effect = Eff;

    fn add_policy(&mut self, _policy: &[u8]) -> Result<PolicyId, PolicyError> {
        Ok(PolicyId::new(0))
    }

    fn get_policy(&self, _id: PolicyId) -> Result<&AuditPolicy, PolicyError> {
        Ok(&self.policy)
    }
}

#[derive(Clone, Debug, PartialEq, Eq)]
pub enum SinkEv {
    Begin,
    Consume(Eff),
    Rollback,
    Commit,
}

pub struct RecSink {
    pub log: Vec<SinkEv>,
    /// when false nothing is recorded
    pub enabled: bool,
}

impl Default for RecSink {
    fn default() -> Self {
        RecSink {
            log: Vec::new(),
            enabled: true,
        }
    }
}

impl Sink<Eff> for RecSink {
    fn begin(&mut self) {
        if self.enabled {
            self.log.push(SinkEv::Begin);
        }
    }
    fn consume(&mut self, effect: Eff) {
        if self.enabled {
            self.log.push(SinkEv::Consume(effect));
        }
    }
    fn rollback(&mut self) {
        if self.enabled {
            self.log.push(SinkEv::Rollback);
        }
    }
    fn commit(&mut self) {
        if self.enabled {
            self.log.push(SinkEv::Commit);
        }
    }
}

impl RecSink {
    /// Effects that ended up committed (consumed between a begin and its commit, not rolled back).
    pub fn committed_effects(&self) -> Vec<Eff> {
        let mut out = Vec::new();
        let mut pending: Vec<Vec<Eff>> = Vec::new();
        for e in &self.log {
            match e {
                SinkEv::Begin => pending.push(Vec::new()),
                SinkEv::Consume(x) => {
                    if let Some(p) = pending.last_mut() {
                        p.push(x.clone());
                    } else {
                        out.push(x.clone());
                    }
                }
                SinkEv::Rollback => {
                    pending.pop();
                }
                SinkEv::Commit => {
                    if let Some(p) = pending.pop() {
                        out.extend(p);
                    }
                }
            }
        }
        out
    }
}
