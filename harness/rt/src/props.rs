//! Property entry points of vh-rt.
use proptest::prelude::*;
use vcommon::{CaseInfo, CheckResult, Ctx, Report};

use crate::{
    scenario::{self, Case, Flags, HONEST, case_strategy, run_on, target_set},
    txn::{self, TxCase, txcase_strategy},
    world::{Kind, World, WorldOpts},
};

const ASSUME_MODEL: &str = "reference model (dominator-chain LCA, smallest-(priority,id)-first braid, flat fact map) in harness/rt/src/world.rs, written from the property statements and the documented braid rule";
const ASSUME_POLICY: &str = "AuditPolicy (harness/rt/src/policy.rs): guards are evaluated before any write, so a command rejected inside a braid leaves no partial writes (as VM policies do with finish blocks)";

fn classify(w: &World, info: &mut CaseInfo) -> (usize, usize) {
    let merges = w.cmds.iter().filter(|c| c.kind == Kind::Merge).count();
    let branches = (0..w.len()).filter(|i| w.children[*i].len() > 1).count();
    info.label(match w.len() {
        0..=12 => "tiny",
        13..=60 => "small",
        61..=300 => "medium",
        _ => "large",
    });
    if merges > 0 {
        info.label("has_merge");
    }
    if w.cmds.iter().any(|c| c.kind == Kind::Finalize) {
        info.label("has_finalize");
    }
    (merges, branches)
}

// ---------------------------------------------------------------------------------------------
// C01

fn check_c01(c: &Case, info: &mut CaseInfo) -> CheckResult {
    let w = World::from_recipe(&c.recipe, HONEST);
    let set = target_set(&w, c.subset);
    let (_m, branches) = classify(&w, info);
    let flags = Flags {
        facts_vs_model: true,
        audit: false,
        heads: true,
        merge_perspectives: false,
    };
    let mut outs = Vec::new();
    for sc in &c.scripts {
        outs.push(run_on(sc, &w, &set, flags)?);
    }
    for (i, o) in outs.iter().enumerate().skip(1) {
        let a = &outs[0].obs;
        let b = &o.obs;
        vcommon::ensure!(a.heads == b.heads, "C01: replicas with the same commands report different head sets", "script 0 vs {i}");
        vcommon::ensure!(
            a.facts == b.facts,
            "C01: replicas with the same commands answer fact queries differently",
            "script 0 vs {i}: {} vs {}",
            scenario::fmt_facts(&a.facts),
            scenario::fmt_facts(&b.facts)
        );
        vcommon::ensure!(a.hello == b.hello, "C01: replicas with the same commands advertise different hello heads", "script 0 vs {i}");
    }
    let differ = c.scripts.len() >= 2
        && (c.scripts[0].seed != c.scripts[1].seed || c.scripts[0].commit_pct != c.scripts[1].commit_pct);
    if branches > 0 && differ {
        info.nontrivial();
    }
    if outs.iter().any(|o| o.dup_deliveries > 0) {
        info.label("dup_delivery");
    }
    if outs.iter().any(|o| o.multi_head_commits > 0) {
        info.label("multi_head_commit");
    }
    if c.scripts.iter().any(|s| s.file) {
        info.label("file_backend");
    }
    Ok(())
}

pub fn run_c01(ctx: &Ctx) -> ! {
    let mut rep = Report::new(ctx, "exploration");
    rep.assume(ASSUME_MODEL);
    rep.assume(ASSUME_POLICY);
    rep.explore(
        "delivery_orders",
        "a world (<= 40 recipe steps) and 2-4 independent delivery scripts for the same downward-closed command set \
         (random linear extensions, batch sizes, commit points, flushes, duplicate deliveries, mem/file back end, graph created \
         by init-in-transaction or by new_graph); final head lists, fact scans and hello heads must be pairwise identical and \
         equal to the reference model; non-trivial = world has a branch and the scripts differ",
        || case_strategy(40, 3, 1, 2..5),
        ctx.pick(2500, 100_000),
        check_c01,
    );
    rep.explore(
        "sync_topologies",
        "3-4 replicas start from different downward-closed subsets of one world (built by generated delivery scripts) and exchange \
         commands through 4-24 generated (requester, responder) sync sessions followed by two all-pairs rounds; every replica must \
         match the reference model for what it holds, and any two replicas that ended up with the same committed commands must \
         report identical heads, facts and hello heads; non-trivial = commands were transferred and at least two replicas ended \
         up equal (sync progress itself is C16's business: a session error fails the case with C16/C17's signature)",
        crate::sync::topo_case,
        ctx.pick(300, 20_000),
        crate::sync::check_topology,
    );
    rep.explore(
        "delivery_orders_medium",
        "same with <= 160 recipe steps incl. runs of up to 40 commands (long segments, skip lists)",
        || case_strategy(160, 2, 3, 2..4),
        ctx.pick(150, 6_000),
        check_c01,
    );
    rep.finish()
}

// ---------------------------------------------------------------------------------------------
// C02

fn check_c02(c: &Case, info: &mut CaseInfo) -> CheckResult {
    let w = World::from_recipe(&c.recipe, HONEST);
    let set = target_set(&w, c.subset);
    classify(&w, info);
    let flags = Flags {
        facts_vs_model: false,
        audit: true,
        heads: false,
        merge_perspectives: false,
    };
    let mut maxb = 0;
    for sc in &c.scripts {
        let o = run_on(sc, &w, &set, flags)?;
        maxb = maxb.max(o.max_braid);
    }
    if maxb >= 3 {
        info.nontrivial();
    }
    if maxb > 256 {
        info.label("spill_braid");
    }
    info.label(match maxb {
        0 => "braid0",
        1..=2 => "braid1-2",
        3..=20 => "braid3-20",
        21..=256 => "braid21-256",
        _ => "braid>256",
    });
    Ok(())
}

pub fn run_c02(ctx: &Ctx) -> ! {
    let mut rep = Report::new(ctx, "exploration");
    rep.assume(ASSUME_MODEL);
    rep.explore(
        "braid_audit",
        "worlds (<= 40 steps) delivered by 1-2 scripts; the AuditPolicy log of in-braid evaluations made by each add_commands \
         (delivered merges) and each multi-head commit must equal the reference application order with the same accept/reject \
         verdicts: every region command exactly once, after its ancestors, merges never evaluated; each new command evaluated \
         exactly once at origin; non-trivial = some braid applied >= 3 commands",
        || case_strategy(40, 3, 1, 1..3),
        ctx.pick(2500, 100_000),
        check_c02,
    );
    rep.explore(
        "braid_audit_spill",
        "ladder worlds with 258-300 rungs (two strands, one merging with the other after every step): braids of > 256 commands \
         and > 256 convergence points, i.e. both in-memory blocks spill; same oracle",
        || (crate::world::strategies::spill_recipe(), scenario::script_strategy()).prop_map(|(recipe, sc)| { let sc = scenario::tame_for_wide_worlds(&recipe, sc); Case { recipe, scripts: vec![sc], subset: 0 } }),
        ctx.pick(4, 120),
        check_c02,
    );
    rep.explore(
        "braid_audit_ladders",
        "3-8 steps of long ladders (120-420 rungs each), branches, runs and merges: thousands of convergence points spread over \
         many spilled convergence-map blocks with overlapping max-cut ranges; same oracle",
        || (crate::world::strategies::ladders_recipe(), scenario::script_strategy()).prop_map(|(recipe, sc)| { let sc = scenario::tame_for_wide_worlds(&recipe, sc); Case { recipe, scripts: vec![sc], subset: 0 } }),
        ctx.pick(6, 200),
        check_c02,
    );
    rep.explore(
        "braid_audit_medium",
        "same with <= 200 recipe steps and runs (braids of dozens to hundreds of commands)",
        || case_strategy(200, 2, 4, 1..2),
        ctx.pick(120, 5_000),
        check_c02,
    );
    rep.finish()
}

// ---------------------------------------------------------------------------------------------
// C03

pub fn run_c03(ctx: &Ctx) -> ! {
    let mut rep = Report::new(ctx, "exploration");
    rep.assume(ASSUME_MODEL);
    rep.assume(ASSUME_POLICY);
    rep.explore(
        "braid_small",
        "worlds of <= 40 recipe steps (extend/branch/merge/finalize/runs; 3 priorities so ties are the norm; generated id order) \
         delivered by 1-2 generated scripts (batching, commit points, flushes, duplicates, mem/file back end); after every \
         commit the fact cache, and at the end the fact perspective at every merge, must equal the reference braid; \
         non-trivial = world has a branch and (a merge or a multi-head commit)",
        || case_strategy(40, 3, 1, 1..3),
        ctx.pick(2500, 100_000),
        scenario::check_c03,
    );
    rep.explore(
        "braid_spill",
        "ladder worlds with 258-300 rungs: braids and convergence maps beyond their 256-entry in-memory blocks; same oracle",
        || (crate::world::strategies::spill_recipe(), scenario::script_strategy()).prop_map(|(recipe, sc)| { let sc = scenario::tame_for_wide_worlds(&recipe, sc); Case { recipe, scripts: vec![sc], subset: 0 } }),
        ctx.pick(4, 120),
        scenario::check_c03,
    );
    rep.explore(
        "braid_ladders",
        "3-8 steps of long ladders (120-420 rungs each), branches, runs and merges: thousands of convergence points spread over \
         many spilled convergence-map blocks with overlapping max-cut ranges; same oracle",
        || (crate::world::strategies::ladders_recipe(), scenario::script_strategy()).prop_map(|(recipe, sc)| { let sc = scenario::tame_for_wide_worlds(&recipe, sc); Case { recipe, scripts: vec![sc], subset: 0 } }),
        ctx.pick(14, 300),
        scenario::check_c03,
    );
    rep.explore(
        "braid_medium",
        "same with <= 200 recipe steps and runs of up to 40 commands (nested merges with deep last common ancestors, long segments)",
        || case_strategy(200, 2, 4, 1..3),
        ctx.pick(120, 5_000),
        scenario::check_c03,
    );
    rep.finish()
}

// ---------------------------------------------------------------------------------------------
// transaction engine properties

const POISON: WorldOpts = WorldOpts {
    allow_poison: true,
    allow_parallel_finalize: false,
    allow_finalize: true,
};
const PARFIN: WorldOpts = WorldOpts {
    allow_poison: false,
    allow_parallel_finalize: true,
    allow_finalize: true,
};

fn check_c06(c: &TxCase, info: &mut CaseInfo) -> CheckResult {
    let st = txn::run_case(c, POISON, info)?;
    if st.after_reject_deliveries > 0 || (st.rejected > 0 && st.commits_ok > 0) {
        info.nontrivial();
    }
    Ok(())
}

pub fn run_c06(ctx: &Ctx) -> ! {
    let mut rep = Report::new(ctx, "exploration");
    rep.assume(ASSUME_MODEL);
    rep.assume(ASSUME_POLICY);
    rep.explore(
        "poison",
        "worlds with poison commands (write facts, emit an effect, then reject) at generated positions and op sequences over up \
         to 4 open transactions (add batches incl. poison, children of poison, duplicates, missing parents; flush; commit; drop; \
         actions with a poison publish); model: rejected => PolicyError::Rejected, child of rejected => NoSuchParent, everything \
         else accepted with exact counts; after every op committed ids == model, heads == frontier, facts == reference (no poison \
         writes), no effect of a rejected command ever committed; non-trivial = a rejection followed by further accepted \
         deliveries in the same transaction or by a successful commit",
        || txcase_strategy(30, 30, 3, 2, 2),
        ctx.pick(4000, 150_000),
        check_c06,
    );
    rep.finish()
}

fn check_c08(c: &TxCase, info: &mut CaseInfo) -> CheckResult {
    let st = txn::run_case(c, POISON, info)?;
    if st.overlapping_commits > 0 || st.concurrent_errors > 0 {
        info.nontrivial();
    }
    Ok(())
}

pub fn run_c08(ctx: &Ctx) -> ! {
    let mut rep = Report::new(ctx, "exploration");
    rep.assume(ASSUME_MODEL);
    rep.assume("the harness is the scheduler: ClientState is &mut, so an interleaving is the order of calls on up to 4 open transactions");
    rep.explore(
        "interleaved_transactions",
        "op sequences (<= 40 ops) over up to 4 concurrently open transactions plus actions on one replica; oracle: the set of \
         committed command ids (full graph walk) equals the model after every op (so it never shrinks), commit fails with \
         ConcurrentTransaction iff another commit/action succeeded after the transaction first read the heads, otherwise the \
         committed graph becomes previous + accepted; non-trivial = a commit while another transaction is open, or a \
         ConcurrentTransaction outcome",
        || txcase_strategy(30, 40, 4, 2, 1),
        ctx.pick(4000, 150_000),
        check_c08,
    );
    rep.finish()
}

fn check_c09(c: &TxCase, info: &mut CaseInfo) -> CheckResult {
    let st = txn::run_case(c, HONEST, info)?;
    if st.multi_head_states > 0 || st.actions_multi_head > 0 {
        info.nontrivial();
    }
    Ok(())
}

pub fn run_c09(ctx: &Ctx) -> ! {
    let mut rep = Report::new(ctx, "exploration");
    rep.assume(ASSUME_MODEL);
    rep.explore(
        "frontier",
        "honest worlds and op sequences (adds with duplicates and deep parents, merges of non-tip commands, flushes, commits, \
         actions); after every successful commit/action: heads strictly increasing by id, duplicate free, equal to the frontier \
         of the walked committed graph; non-trivial = a multi-head committed state was reached",
        || txcase_strategy(40, 40, 2, 2, 1),
        ctx.pick(4000, 150_000),
        check_c09,
    );
    rep.explore(
        "frontier_after_rejections",
        "the same with worlds that contain commands their policy rejects (rejected first commands of fresh perspectives, \
         duplicates re-delivered right after a rejection, children of rejected commands) on up to 3 open transactions; \
         non-trivial = a rejection happened and a multi-head committed state was reached",
        || txcase_strategy(30, 40, 3, 2, 1),
        ctx.pick(4000, 150_000),
        check_c09_poison,
    );
    rep.finish()
}

fn check_c09_poison(c: &TxCase, info: &mut CaseInfo) -> CheckResult {
    let st = txn::run_case(c, POISON, info)?;
    if (st.multi_head_states > 0 || st.actions_multi_head > 0) && st.rejected > 0 {
        info.nontrivial();
    }
    Ok(())
}

fn check_c05(c: &TxCase, info: &mut CaseInfo) -> CheckResult {
    let st = txn::run_case(c, PARFIN, info)?;
    let w = World::from_recipe(&c.recipe, PARFIN);
    let fins = w.cmds.iter().filter(|c| c.kind == Kind::Finalize).count();
    if fins >= 2 {
        info.nontrivial();
        info.label("two_or_more_finalize");
    }
    if st.parallel_finalize_errors > 0 {
        info.label("pf_detected");
    }
    Ok(())
}

pub fn run_c05(ctx: &Ctx) -> ! {
    let mut rep = Report::new(ctx, "exploration");
    rep.assume(ASSUME_MODEL);
    rep.assume("graphs never contain a merge built over two unordered finalize commands (the runtime refuses to store one), so two unordered finalize commands in a braid region always sit on different strands");
    rep.explore(
        "finalize_placement",
        "worlds with 0-6 finalize commands placed freely on branches, above/below merges and in chains; op sequences deliver them \
         through merges and multi-head commits; oracle (property-level predicate, independent of the braid walk): a merge or \
         commit fails with ParallelFinalize iff its region above the last common ancestor holds two finalize commands neither of \
         which is an ancestor of the other, and after a failure committed ids, heads and facts are unchanged; non-trivial = \
         world has >= 2 finalize commands",
        || txcase_strategy(30, 30, 2, 1, 12),
        ctx.pick(4000, 150_000),
        check_c05,
    );
    rep.finish()
}

fn check_c04(c: &TxCase, info: &mut CaseInfo) -> CheckResult {
    let st = txn::run_case(c, HONEST, info)?;
    if st.actions_multi_head > 0 {
        info.nontrivial();
    }
    Ok(())
}

/// C04 on delivered worlds: deliver a branchy world (ends multi-head), then run one action that dumps what it sees.
fn check_c04_delivery(c: &Case, info: &mut CaseInfo) -> CheckResult {
    use crate::policy::{ActionScript, Publish};
    use crate::world::{Payload, merge_id};
    let mut w = World::from_recipe(&c.recipe, HONEST);
    let set = target_set(&w, c.subset);
    classify(&w, info);
    let mut sc = c.scripts[0].clone();
    sc.file = false;
    let mut rep = crate::replica::MemReplica::new_mem();
    scenario::run_script(&mut rep, &w, &set, &sc, Flags::default())?;
    let f = scenario::frontier_sorted(&w, &set);
    info.label(match f.len() {
        1 => "heads1",
        2 => "heads2",
        3..=5 => "heads3-5",
        _ => "heads6+",
    });
    let before = rep.obs().map_err(|e| vcommon::Failure::new("observation failed", e))?;
    let want = w.headset_state(&f).map_err(|_| vcommon::Failure::new("HARNESS: parallel finalize in honest world", ""))?;
    vcommon::ensure!(before.facts == want, "C03: committed fact state differs from the reference braid", "heads {}", f.len());
    // model of the collapse
    let mut q: std::collections::VecDeque<usize> = f.iter().copied().collect();
    while q.len() > 1 {
        let l = q.pop_front().unwrap();
        let r = q.pop_front().unwrap();
        let id = merge_id(&w.cmds[l].id, &w.cmds[r].id);
        let mi = match w.by_id.get(&id) {
            Some(i) => *i,
            None => {
                let (a, b) = if w.cmds[l].id < w.cmds[r].id { (l, r) } else { (r, l) };
                w.push(id, Kind::Merge, vec![a, b], Payload::empty())
            }
        };
        q.push_back(mi);
    }
    let head = q[0];
    vcommon::ensure!(
        before.hello == (w.cmds[head].id, w.cmds[head].max_cut),
        "C04: hello head is not the address of the merge the collapse writes",
        "heads {}",
        f.len()
    );
    let id = w.fresh_id(0xC04);
    let n = rep.audit.dumps.borrow().len();
    let sink_before = rep.sink.log.len();
    rep.action(ActionScript {
        init: false,
        dump: true,
        publishes: vec![Publish {
            id,
            kind: Kind::Basic(0),
            payload: Payload::empty(),
        }],
    })
    .map_err(|e| vcommon::Failure::new("C07: action failed", e.to_string()))?;
    let seen = rep.audit.dumps.borrow()[n].clone();
    vcommon::ensure!(
        seen == before.facts,
        "C04: an action observes a fact state different from what queries saw before the collapse",
        "heads [{}]\n action {}\n query  {}",
        scenario::shorts(&scenario::ids_of(&w, &f)),
        scenario::fmt_facts(&seen),
        scenario::fmt_facts(&before.facts)
    );
    let effs = rep.sink.log[sink_before..].iter().filter(|e| matches!(e, crate::policy::SinkEv::Consume(_))).count();
    vcommon::ensure!(effs == 1, "C04: collapsing the heads for an action emitted effects (or the action's own effects are wrong)", "{effs} effects");
    if f.len() >= 2 {
        info.nontrivial();
        let loc = rep.locate(&before.hello.0, before.hello.1).map_err(|e| vcommon::Failure::new("get_location failed", e))?;
        vcommon::ensure!(loc.is_some(), "C04: the advertised hello head is not in the graph after the collapse", "");
    }
    Ok(())
}

pub fn run_c04(ctx: &Ctx) -> ! {
    let mut rep = Report::new(ctx, "exploration");
    rep.assume(ASSUME_MODEL);
    rep.explore(
        "collapse",
        "honest worlds driven into multi-head committed states (2-6 heads, shared ancestry, nested merges), then actions that \
         first dump the fact view they observe and publish 1-3 commands; oracle: fact_cache scan before == view inside the action \
         == reference braid; the action's parent is the merge whose address hello_head advertised before; that address is not in \
         the graph before and is afterwards; the sink receives only the published commands' effects; non-trivial = an action ran \
         on a multi-head graph",
        || txcase_strategy(30, 30, 2, 8, 1),
        ctx.pick(4000, 150_000),
        check_c04,
    );
    rep.explore(
        "collapse_after_delivery",
        "branchy worlds (<= 40 recipe steps incl. fans, combs, ladders, nested merges) delivered by a generated script so that the \
         replica ends with 1-20 committed heads; then one action dumps the facts it observes and publishes one command; oracle as \
         above (fact cache == reference braid == view inside the action after the pairwise collapse, hello head == collapsed \
         merge, only the action's own effect); non-trivial = >= 2 heads",
        || case_strategy(40, 1, 3, 1..2),
        ctx.pick(5000, 150_000),
        check_c04_delivery,
    );
    rep.finish()
}
