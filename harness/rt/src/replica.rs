//! Replica driver: a real `ClientState` with AuditStore, plus observation helpers that walk the
//! committed graph (DESIGN.md section 1.4).

use std::collections::{BTreeMap, BTreeSet};

use aranya_runtime::{
    Address, ClientError, ClientState, CmdId, Command, CommandExt, GraphId, Location, MaxCut, PeerCache, Prior,
    RuntimeBuffers, Segment, Storage, StorageProvider, SyncError, SyncIncoming, SyncRequester, SyncResponder,
    Transaction,
    storage::linear::{LinearStorageProvider, libc::FileManager, testing::MemStorageProvider},
};

use crate::{
    policy::{self, ActionScript, AuditStore, OwnedCmd, RecSink, WireCmd},
    world::{Facts, Id, Kind, World, init_id},
};

pub type Heads = Vec<(Id, u64)>;

#[derive(Clone, Debug, PartialEq, Eq)]
pub struct Obs {
    pub heads: Heads,
    pub facts: Facts,
    pub hello: (Id, u64),
}

pub struct Replica<SP: StorageProvider> {
    pub client: ClientState<AuditStore, SP>,
    pub bufs: RuntimeBuffers<SP::Segment>,
    pub gid: GraphId,
    pub sink: RecSink,
    /// shared with the policy store inside `client`: audit log, fact dumps
    pub audit: std::rc::Rc<policy::AuditPolicy>,
    _dir: Option<tempfile::TempDir>,
}

pub type MemReplica = Replica<MemStorageProvider>;
pub type FileReplica = Replica<LinearStorageProvider<FileManager>>;

pub fn graph_id() -> GraphId {
    GraphId::from_bytes(init_id())
}

impl MemReplica {
    pub fn new_mem() -> Self {
        let store = AuditStore::default();
        let audit = store.policy.clone();
        Replica {
            audit,
            client: ClientState::new(store, MemStorageProvider::default()),
            bufs: RuntimeBuffers::new(),
            gid: graph_id(),
            sink: RecSink::default(),
            _dir: None,
        }
    }
}

impl FileReplica {
    pub fn new_file() -> Self {
        let base = if std::path::Path::new("/dev/shm").is_dir() { "/dev/shm" } else { "/tmp" };
        let dir = tempfile::Builder::new().prefix("vh-rt-").tempdir_in(base).expect("tempdir");
        let fm = FileManager::new(dir.path()).expect("file manager");
        let store = AuditStore::default();
        let audit = store.policy.clone();
        Replica {
            audit,
            client: ClientState::new(store, LinearStorageProvider::new(fm)),
            bufs: RuntimeBuffers::new(),
            gid: graph_id(),
            sink: RecSink::default(),
            _dir: Some(dir),
        }
    }
}

pub fn wire_of(w: &World, i: usize) -> WireCmd {
    let c = &w.cmds[i];
    WireCmd {
        id: c.id,
        kind: c.kind,
        parents: c.parents.iter().map(|p| (w.cmds[*p].id, w.cmds[*p].max_cut)).collect(),
        payload: c.payload.clone(),
    }
}

pub fn owned_of(w: &World, i: usize) -> OwnedCmd {
    OwnedCmd::from_wire(&wire_of(w, i))
}

impl<SP: StorageProvider> Replica<SP> {
    pub fn trx(&mut self) -> Transaction<SP, AuditStore> {
        self.client.transaction(self.gid)
    }

    pub fn add(&mut self, trx: &mut Transaction<SP, AuditStore>, cmds: &[OwnedCmd]) -> Result<usize, ClientError> {
        self.client.add_commands(trx, &mut self.sink, cmds, &mut self.bufs, CappedSpill::new)
    }

    pub fn commit(&mut self, trx: Transaction<SP, AuditStore>) -> Result<bool, ClientError> {
        self.client.commit(trx, &mut self.sink, &mut self.bufs, CappedSpill::new)
    }

    pub fn flush(&mut self, trx: &mut Transaction<SP, AuditStore>) -> Result<(), ClientError> {
        let st = self.client.provider().get_storage(self.gid)?;
        trx.flush(st)
    }

    pub fn action(&mut self, a: ActionScript) -> Result<(), ClientError> {
        self.client.action(self.gid, &mut self.sink, a, &mut self.bufs, CappedSpill::new)
    }

    pub fn new_graph(&mut self) -> Result<GraphId, ClientError> {
        let a = ActionScript {
            init: true,
            ..Default::default()
        };
        self.client.new_graph(&policy::POLICY_BYTES, a, &mut self.sink)
    }

    pub fn has_graph(&mut self) -> bool {
        self.client.provider().get_storage(self.gid).is_ok()
    }

    pub fn heads(&mut self) -> Result<Heads, String> {
        let st = self.client.provider().get_storage(self.gid).map_err(|e| format!("get_storage: {e}"))?;
        let hs = st.get_heads().map_err(|e| format!("get_heads: {e}"))?;
        Ok(hs.iter().map(|h| (*h.id.as_array(), h.max_cut.get())).collect())
    }

    pub fn head_locations(&mut self) -> Result<Vec<(Id, Location)>, String> {
        let st = self.client.provider().get_storage(self.gid).map_err(|e| format!("get_storage: {e}"))?;
        let hs = st.get_heads().map_err(|e| format!("get_heads: {e}"))?;
        Ok(hs.iter().map(|h| (*h.id.as_array(), h.location())).collect())
    }

    pub fn facts(&mut self) -> Result<Facts, String> {
        let st = self.client.provider().get_storage(self.gid).map_err(|e| format!("get_storage: {e}"))?;
        let fc = st.fact_cache().map_err(|e| format!("fact_cache: {e}"))?;
        policy::scan(&fc)
    }

    pub fn hello(&mut self) -> Result<(Id, u64), String> {
        let a = self.client.hello_head(self.gid).map_err(|e| format!("hello_head: {e}"))?;
        Ok((*a.id.as_array(), a.max_cut.get()))
    }

    pub fn obs(&mut self) -> Result<Obs, String> {
        Ok(Obs {
            heads: self.heads()?,
            facts: self.facts()?,
            hello: self.hello()?,
        })
    }

    /// Walks every segment reachable from the committed heads; returns id -> (location, kind, parents).
    pub fn walk(&mut self) -> Result<BTreeMap<Id, WalkCmd>, String> {
        let st = self.client.provider().get_storage(self.gid).map_err(|e| format!("get_storage: {e}"))?;
        let mut out = BTreeMap::new();
        let mut seen: BTreeSet<u64> = BTreeSet::new();
        let mut stack: Vec<Location> =
            st.get_heads().map_err(|e| format!("get_heads: {e}"))?.iter().map(|h| h.location()).collect();
        while let Some(loc) = stack.pop() {
            if !seen.insert(loc.segment.get()) {
                continue;
            }
            let seg = st.get_segment(loc).map_err(|e| format!("get_segment({loc}): {e}"))?;
            let first = seg.first_location();
            let cmds = seg.get_from(first);
            if cmds.is_empty() {
                return Err(format!("segment {} has no commands", loc.segment));
            }
            for (k, c) in cmds.iter().enumerate() {
                let l = Location::new(first.segment, MaxCut::new(first.max_cut.get() + k as u64));
                let a = c.address().map_err(|e| format!("address: {e}"))?;
                if a.max_cut != l.max_cut {
                    return Err(format!("command {} stored at {l} reports max cut {}", a.id, a.max_cut));
                }
                let parents: Vec<Id> = c.parent().into_iter().map(|p| *p.id.as_array()).collect();
                let prev = out.insert(
                    *c.id().as_array(),
                    WalkCmd {
                        loc: l,
                        parents,
                        max_cut: a.max_cut.get(),
                        bytes: c.bytes().to_vec(),
                    },
                );
                if let Some(p) = prev {
                    return Err(format!("command {} stored twice: {} and {l}", a.id, p.loc));
                }
            }
            for p in seg.prior() {
                stack.push(p);
            }
        }
        Ok(out)
    }

    pub fn committed_ids(&mut self) -> Result<BTreeSet<Id>, String> {
        Ok(self.walk()?.into_keys().collect())
    }

    pub fn locate(&mut self, id: &Id, max_cut: u64) -> Result<Option<Location>, String> {
        let st = self.client.provider().get_storage(self.gid).map_err(|e| format!("get_storage: {e}"))?;
        st.get_location(policy::addr(id, max_cut), &mut self.bufs.traversal.primary)
            .map_err(|e| format!("get_location: {e}"))
    }
}

#[derive(Default, Debug)]
pub struct SyncStats {
    pub sessions: u64,
    pub responses: u64,
    pub commands: u64,
    pub sent: Vec<(Id, u64)>,
}

#[derive(Debug)]
pub enum SyncFail {
    Sync(SyncError),
    Client(ClientError),
    Other(String),
}

impl std::fmt::Display for SyncFail {
    fn fmt(&self, f: &mut std::fmt::Formatter<'_>) -> std::fmt::Result {
        match self {
            SyncFail::Sync(e) => write!(f, "sync error: {e}"),
            SyncFail::Client(e) => write!(f, "client error: {e}"),
            SyncFail::Other(e) => write!(f, "{e}"),
        }
    }
}

#[derive(Clone, Debug)]
pub struct WalkCmd {
    pub loc: Location,
    pub parents: Vec<Id>,
    pub max_cut: u64,
    pub bytes: Vec<u8>,
}

/// Deterministic "CSPRNG" for sync session ids.
pub struct DetRng(pub u64);

impl aranya_crypto::Csprng for DetRng {
    fn fill_bytes(&self, dst: &mut [u8]) {
        let mut h = self.0 ^ 0x5e55_1011;
        for c in dst.chunks_mut(8) {
            h = crate::world::mix64(h, 0x9e37);
            let b = h.to_le_bytes();
            c.copy_from_slice(&b[..c.len()]);
        }
    }
}

pub fn kind_of_bytes(b: &[u8]) -> Option<Kind> {
    postcard::from_bytes::<WireCmd>(b).ok().map(|w| w.kind)
}

pub fn prior_ids(p: Prior<Address>) -> Vec<CmdId> {
    p.into_iter().map(|a| a.id).collect()
}


/// In-memory spill with a hard size cap. The runtime's braid and convergence-map overflow needs at most a few
/// MiB for the graphs generated here (131 072 convergence entries x 24 B; 16 B per braided command); a spill
/// that grows past 48 MiB is a runaway loop, which this turns into an I/O error instead of exhausting memory.
pub struct CappedSpill {
    data: Vec<u8>,
}

pub const SPILL_CAP: usize = 48 << 20;

impl CappedSpill {
    pub fn new() -> Result<Self, aranya_runtime::StorageError> {
        Ok(CappedSpill { data: Vec::new() })
    }
}

impl aranya_runtime::Spill for CappedSpill {
    fn write_at(&mut self, offset: usize, data: &[u8]) -> Result<(), aranya_runtime::StorageError> {
        let end = offset.checked_add(data.len()).ok_or(aranya_runtime::StorageError::IoError)?;
        if end > SPILL_CAP {
            return Err(aranya_runtime::StorageError::IoError);
        }
        if self.data.len() < end {
            self.data.resize(end, 0);
        }
        self.data[offset..end].copy_from_slice(data);
        Ok(())
    }

    fn read_at(&mut self, offset: usize, data: &mut [u8]) -> Result<(), aranya_runtime::StorageError> {
        let end = offset.checked_add(data.len()).ok_or(aranya_runtime::StorageError::IoError)?;
        let src = self.data.get(offset..end).ok_or(aranya_runtime::StorageError::IoError)?;
        data.copy_from_slice(src);
        Ok(())
    }
}
