//! Delivery scenarios: a world delivered to replicas by generated scripts, with the runtime
//! oracles of C01, C02, C03, C09 (and the honest parts of C06/C08) checked after every step.

use std::collections::BTreeSet;

use aranya_runtime::{ClientError, Storage, StorageProvider};
use proptest::prelude::*;
use serde::{Deserialize, Serialize};
use vcommon::{CaseInfo, CheckResult, Ctx, Failure, Report, ensure, fail};

use crate::{
    policy::{self, Place},
    replica::{FileReplica, MemReplica, Obs, Replica, owned_of},
    world::{Facts, Id, Kind, Step, Verdict, World, WorldOpts, eval_rule, mix64, strategies},
};

#[derive(Clone, Debug, Serialize, Deserialize)]
pub struct Script {
    pub seed: u64,
    /// max commands per add_commands batch (1..)
    pub batch_max: u8,
    /// percent chance of a commit after a batch
    pub commit_pct: u8,
    pub flush_pct: u8,
    /// percent chance of re-delivering an already delivered command inside a batch
    pub dup_pct: u8,
    pub file: bool,
    pub init_via_action: bool,
}

#[derive(Clone, Debug, Serialize, Deserialize)]
pub struct Case {
    pub recipe: Vec<Step>,
    pub scripts: Vec<Script>,
    /// 0 = deliver every honest command; otherwise selects a downward-closed subset
    pub subset: u16,
}

pub struct Prng(pub u64);
impl Prng {
    pub fn next(&mut self) -> u64 {
        self.0 = self.0.wrapping_add(0x9E37_79B9_7F4A_7C15);
        mix64(self.0, 0x51ed)
    }
    pub fn below(&mut self, n: usize) -> usize {
        if n == 0 { 0 } else { (self.next() % n as u64) as usize }
    }
    pub fn pct(&mut self, p: u8) -> bool {
        (self.next() % 100) < u64::from(p)
    }
}

pub fn script_strategy() -> impl Strategy<Value = Script> {
    (
        any::<u64>(),
        prop_oneof![2 => Just(1u8), 3 => 2u8..6, 2 => 6u8..60],
        prop_oneof![1 => Just(0u8), 2 => 1u8..40, 1 => Just(100u8)],
        0u8..30,
        0u8..25,
        prop::bool::weighted(0.12),
        prop::bool::weighted(0.3),
    )
        .prop_map(|(seed, batch_max, commit_pct, flush_pct, dup_pct, file, init_via_action)| Script {
            seed,
            batch_max,
            commit_pct,
            flush_pct,
            dup_pct,
            file,
            init_via_action,
        })
}

/// Delivery scripts for the worlds with very wide combs: a commit over h heads costs O(h) braids and every batch
/// is one transaction, so `commit after every single command` over a 1000-tooth comb is hours of work for one
/// case (seen with VERIF_SEED=1: one case > 25 min on the file back end).  Wide combs therefore get large
/// batches and rare commits; everything else about the script is kept.
pub fn tame_for_wide_worlds(recipe: &[Step], mut sc: Script) -> Script {
    let widest = recipe.iter().map(|s| if let Step::Comb(_, n, _) = s { usize::from(*n) } else { 0 }).max().unwrap_or(0);
    if widest >= 100 {
        sc.batch_max = sc.batch_max.max(40);
        sc.commit_pct = sc.commit_pct.min(3);
    }
    sc
}

pub fn case_strategy(max_steps: usize, fin: u32, run: u32, scripts: std::ops::Range<usize>) -> impl Strategy<Value = Case> {
    (
        strategies::recipe(max_steps, fin, run),
        prop::collection::vec(script_strategy(), scripts),
        prop_oneof![3 => Just(0u16), 1 => any::<u16>()],
    )
        .prop_map(|(recipe, scripts, subset)| Case { recipe, scripts, subset })
}

/// Downward-closed target set.
pub fn target_set(w: &World, subset: u16) -> BTreeSet<usize> {
    let honest: Vec<usize> = (0..w.len()).filter(|i| w.honest(*i)).collect();
    if subset == 0 {
        return honest.into_iter().collect();
    }
    let mut rng = Prng(u64::from(subset));
    let mut s = BTreeSet::new();
    s.insert(0);
    let picks = 1 + rng.below(3);
    for _ in 0..picks {
        let h = honest[rng.below(honest.len())];
        s.extend(w.ancestors_or_self(h));
    }
    s
}

#[derive(Clone, Copy, Default)]
pub struct Flags {
    /// compare fact cache / merge perspectives with the reference braid (C03)
    pub facts_vs_model: bool,
    /// compare the audit log of braid evaluations with the reference application order (C02)
    pub audit: bool,
    /// head set == frontier of the delivered set, sorted, duplicate free (C09)
    pub heads: bool,
    /// fact perspective at every committed merge location == state(merge) (C03)
    pub merge_perspectives: bool,
}

pub fn ids_of(w: &World, v: &[usize]) -> Vec<Id> {
    v.iter().map(|i| w.cmds[*i].id).collect()
}

pub fn short(id: &Id) -> String {
    format!("{:02x}{:02x}#{}", id[0], id[1], u64::from_be_bytes(id[2..10].try_into().unwrap()))
}

pub fn shorts(ids: &[Id]) -> String {
    ids.iter().map(short).collect::<Vec<_>>().join(",")
}

pub fn fmt_facts(f: &Facts) -> String {
    f.iter()
        .map(|(k, v)| format!("{}{:?}={}", k.name_str(), k.keys, vcommon::hex(v)))
        .collect::<Vec<_>>()
        .join(" ")
}

pub fn expected_heads(w: &World, delivered: &BTreeSet<usize>) -> Vec<(Id, u64)> {
    let mut h: Vec<(Id, u64)> = w.frontier(delivered).into_iter().map(|i| (w.cmds[i].id, w.cmds[i].max_cut)).collect();
    h.sort();
    h
}

pub fn frontier_sorted(w: &World, delivered: &BTreeSet<usize>) -> Vec<usize> {
    let mut f = w.frontier(delivered);
    f.sort_by_key(|i| w.cmds[*i].id);
    f
}

/// Expected audit entries (id, verdict) of one braid in application order.
pub fn expected_braid_log(w: &World, heads: &[usize]) -> Vec<(Id, Verdict)> {
    let b = w.braid(heads).expect("honest region");
    let mut f = w.state(b.base).clone();
    b.order
        .iter()
        .map(|i| {
            let v = eval_rule(&w.cmds[*i].id, &w.cmds[*i].payload, &mut f);
            (w.cmds[*i].id, v)
        })
        .collect()
}

pub struct RunOut {
    pub obs: Obs,
    pub commits: usize,
    pub multi_head_commits: usize,
    pub merges_braided: usize,
    pub max_braid: usize,
    pub dup_deliveries: usize,
}

pub fn client_err(e: &ClientError) -> String {
    format!("{e}")
}

/// Checks the committed state of `rep` against the model for the delivered set.
pub fn check_committed<SP: StorageProvider>(
    rep: &mut Replica<SP>,
    w: &World,
    committed: &BTreeSet<usize>,
    flags: Flags,
    ctxs: &str,
) -> CheckResult {
    if flags.heads {
        let got = rep.heads().map_err(|e| Failure::new("C09: cannot read heads", e))?;
        let want = expected_heads(w, committed);
        let mut sorted = got.clone();
        sorted.sort();
        sorted.dedup();
        ensure!(got == sorted, "C09: head set not sorted by id or has duplicates", "{ctxs}: heads {:?}", got.iter().map(|h| short(&h.0)).collect::<Vec<_>>());
        ensure!(
            got == want,
            "C09: head set is not the frontier of the committed graph",
            "{ctxs}: got [{}] want [{}]",
            shorts(&got.iter().map(|h| h.0).collect::<Vec<_>>()),
            shorts(&want.iter().map(|h| h.0).collect::<Vec<_>>())
        );
    }
    if flags.facts_vs_model {
        let f = frontier_sorted(w, committed);
        let want = w.headset_state(&f).map_err(|_| Failure::new("HARNESS: honest world has parallel finalize", ctxs))?;
        let got = rep.facts().map_err(|e| Failure::new("C03: fact cache unreadable", e))?;
        ensure!(
            got == want,
            "C03: committed fact state differs from the reference braid",
            "{ctxs}: heads [{}]\n got  {}\n want {}",
            shorts(&ids_of(w, &f)),
            fmt_facts(&got),
            fmt_facts(&want)
        );
    }
    Ok(())
}

pub fn check_merge_perspectives<SP: StorageProvider>(rep: &mut Replica<SP>, w: &World) -> Result<usize, Failure> {
    let walk = rep.walk().map_err(|e| Failure::new("C11: committed graph walk failed", e))?;
    let mut n = 0;
    for (id, wc) in &walk {
        let Some(i) = w.by_id.get(id) else { continue };
        if w.cmds[*i].kind != Kind::Merge || !w.honest(*i) {
            continue;
        }
        let st = rep.client.provider().get_storage(rep.gid).map_err(|e| Failure::new("get_storage", e.to_string()))?;
        let fp = st
            .get_fact_perspective(wc.loc)
            .map_err(|e| Failure::new("C03: fact perspective at merge unreadable", e.to_string()))?;
        let got = policy::scan(&fp).map_err(|e| Failure::new("C03: fact perspective at merge unreadable", e))?;
        let want = w.state(*i);
        ensure!(
            got == *want,
            "C03: fact state stored at a merge differs from the reference braid",
            "merge {} : got {} want {}",
            short(id),
            fmt_facts(&got),
            fmt_facts(want)
        );
        n += 1;
    }
    Ok(n)
}

/// Runs one delivery script; all commands of `set` end up committed.
pub fn run_script<SP: StorageProvider>(
    rep: &mut Replica<SP>,
    w: &World,
    set: &BTreeSet<usize>,
    sc: &Script,
    flags: Flags,
) -> Result<RunOut, Failure> {
    let mut rng = Prng(sc.seed);
    // logs grow with every braid evaluation: only keep them when an oracle reads them
    rep.audit.record.set(flags.audit);
    rep.sink.enabled = false;
    let mut delivered: BTreeSet<usize> = BTreeSet::new(); // handed to add_commands successfully
    let mut committed: BTreeSet<usize> = BTreeSet::new();
    let mut out = RunOut {
        obs: Obs {
            heads: vec![],
            facts: Facts::new(),
            hello: ([0; 32], 0),
        },
        commits: 0,
        multi_head_commits: 0,
        merges_braided: 0,
        max_braid: 0,
        dup_deliveries: 0,
    };

    if sc.init_via_action {
        rep.new_graph().map_err(|e| Failure::new("new_graph failed", client_err(&e)))?;
        delivered.insert(0);
        committed.insert(0);
        check_committed(rep, w, &committed, flags, "after new_graph")?;
    }

    let mut trx = rep.trx();
    let mut order: Vec<usize> = Vec::new();
    let remaining = |delivered: &BTreeSet<usize>| -> Vec<usize> {
        set.iter()
            .copied()
            .filter(|i| !delivered.contains(i) && w.cmds[*i].parents.iter().all(|p| delivered.contains(p)))
            .collect()
    };
    loop {
        let ready = remaining(&delivered);
        if ready.is_empty() {
            break;
        }
        // build a batch: a random linear extension prefix
        let bsize = 1 + rng.below(sc.batch_max.max(1) as usize);
        let mut batch: Vec<usize> = Vec::new();
        let mut newly: Vec<usize> = Vec::new();
        let mut local = delivered.clone();
        for _ in 0..bsize {
            let ready = remaining(&local);
            if ready.is_empty() {
                break;
            }
            let pick = ready[rng.below(ready.len())];
            batch.push(pick);
            newly.push(pick);
            local.insert(pick);
            if rng.pct(sc.dup_pct) && !order.is_empty() {
                let d = order[rng.below(order.len())];
                batch.push(d);
                out.dup_deliveries += 1;
            }
        }
        let cmds: Vec<_> = batch.iter().map(|i| owned_of(w, *i)).collect();
        let log_before = rep.audit.log.borrow().len();
        let n = rep.add(&mut trx, &cmds).map_err(|e| {
            Failure::new(
                "C06: honest command refused by add_commands",
                format!("batch [{}]: {}", shorts(&ids_of(w, &batch)), client_err(&e)),
            )
        })?;
        // count: every new non-init command counts once; an init that creates the graph counts once
        let want_n = newly.len();
        ensure!(
            n == want_n,
            "C01: add_commands counted a different number of new commands (a duplicate was added again or a command skipped)",
            "batch [{}] new [{}]: got {n} want {want_n}",
            shorts(&ids_of(w, &batch)),
            shorts(&ids_of(w, &newly))
        );
        if flags.audit {
            let log = rep.audit.log.borrow();
            let got: Vec<(Id, Verdict)> =
                log[log_before..].iter().filter(|a| a.place == Place::Braid).map(|a| (a.id, a.verdict)).collect();
            let mut want = Vec::new();
            for i in &newly {
                if w.cmds[*i].kind == Kind::Merge {
                    let e = expected_braid_log(w, &w.cmds[*i].parents);
                    out.merges_braided += 1;
                    out.max_braid = out.max_braid.max(e.len());
                    want.extend(e);
                }
            }
            audit_compare(&got, &want, w, &format!("add_commands [{}]", shorts(&ids_of(w, &newly))))?;
            ensure!(
                !log[log_before..].iter().any(|a| a.kind == Kind::Merge),
                "C02: a merge command was evaluated by the policy",
                "during add_commands [{}]",
                shorts(&ids_of(w, &newly))
            );
            // origin evaluations: each new non-merge command exactly once, in batch order
            let got_o: Vec<Id> = log[log_before..].iter().filter(|a| a.place == Place::Origin).map(|a| a.id).collect();
            let want_o: Vec<Id> = newly.iter().filter(|i| w.cmds[**i].kind != Kind::Merge).map(|i| w.cmds[*i].id).collect();
            ensure!(
                got_o == want_o,
                "C02: commands were not evaluated exactly once at origin, in delivery order",
                "got [{}] want [{}]",
                shorts(&got_o),
                shorts(&want_o)
            );
        }
        for i in &newly {
            delivered.insert(*i);
            order.push(*i);
        }
        if rng.pct(sc.flush_pct) {
            rep.flush(&mut trx).map_err(|e| Failure::new("flush failed", client_err(&e)))?;
        }
        let last = remaining(&delivered).is_empty();
        if last || rng.pct(sc.commit_pct) {
            let before = committed.clone();
            let new_any = delivered.len() > committed.len();
            let log_before = rep.audit.log.borrow().len();
            let t = std::mem::replace(&mut trx, rep.trx());
            rep.commit(t).map_err(|e| Failure::new("C08: commit of an honest transaction failed", client_err(&e)))?;
            committed = delivered.clone();
            out.commits += 1;
            let f = frontier_sorted(w, &committed);
            if f.len() > 1 {
                out.multi_head_commits += 1;
            }
            if flags.audit {
                let log = rep.audit.log.borrow();
                let got: Vec<(Id, Verdict)> =
                    log[log_before..].iter().filter(|a| a.place == Place::Braid).map(|a| (a.id, a.verdict)).collect();
                let want = if f.len() > 1 && new_any { expected_braid_log(w, &f) } else { Vec::new() };
                out.max_braid = out.max_braid.max(want.len());
                audit_compare(&got, &want, w, &format!("commit with heads [{}]", shorts(&ids_of(w, &f))))?;
                ensure!(
                    !log[log_before..].iter().any(|a| a.kind == Kind::Merge || a.place == Place::Origin),
                    "C02: commit evaluated a merge or re-evaluated a command at origin",
                    "heads [{}]",
                    shorts(&ids_of(w, &f))
                );
            }
            let _ = before;
            check_committed(rep, w, &committed, flags, &format!("after commit #{}", out.commits))?;
        }
    }
    // final commit if something is pending (e.g. commit_pct = 0 and loop ended via `last`)
    if committed.len() != delivered.len() {
        let t = std::mem::replace(&mut trx, rep.trx());
        rep.commit(t).map_err(|e| Failure::new("C08: commit of an honest transaction failed", client_err(&e)))?;
        committed = delivered.clone();
        out.commits += 1;
        check_committed(rep, w, &committed, flags, "after final commit")?;
    }
    drop(trx);
    let ids = rep.committed_ids().map_err(|e| Failure::new("C11: committed graph walk failed", e))?;
    let want: BTreeSet<Id> = set.iter().map(|i| w.cmds[*i].id).collect();
    ensure!(
        ids == want,
        "C08: committed graph is not exactly the delivered commands",
        "missing [{}] extra [{}]",
        shorts(&want.difference(&ids).copied().collect::<Vec<_>>()),
        shorts(&ids.difference(&want).copied().collect::<Vec<_>>())
    );
    if flags.merge_perspectives {
        check_merge_perspectives(rep, w)?;
    }
    out.obs = rep.obs().map_err(|e| Failure::new("observation failed", e))?;
    rep.audit.record.set(true);
    rep.sink.enabled = true;
    Ok(out)
}

pub fn audit_compare(got: &[(Id, Verdict)], want: &[(Id, Verdict)], _w: &World, what: &str) -> CheckResult {
    if got == want {
        return Ok(());
    }
    let gi: Vec<Id> = got.iter().map(|g| g.0).collect();
    let wi: Vec<Id> = want.iter().map(|g| g.0).collect();
    // classify for a precise signature
    let mut gs = gi.clone();
    gs.sort();
    let mut ws = wi.clone();
    ws.sort();
    let dup = gs.windows(2).any(|p| p[0] == p[1]);
    if dup {
        fail!("C02: a command was applied more than once in a braid", "{what}: got [{}] want [{}]", shorts(&gi), shorts(&wi));
    }
    if gs != ws {
        fail!(
            "C02: the set of commands applied in a braid differs from the region above the last common ancestor",
            "{what}: got [{}] want [{}]",
            shorts(&gi),
            shorts(&wi)
        );
    }
    if gi != wi {
        fail!("C02: braid application order differs from the reference order", "{what}: got [{}] want [{}]", shorts(&gi), shorts(&wi));
    }
    fail!(
        "C02: a braided command was accepted/rejected differently from the reference",
        "{what}: got {:?} want {:?}",
        got.iter().map(|g| (short(&g.0), g.1)).collect::<Vec<_>>(),
        want.iter().map(|g| (short(&g.0), g.1)).collect::<Vec<_>>()
    );
}

pub fn run_on(sc: &Script, w: &World, set: &BTreeSet<usize>, flags: Flags) -> Result<RunOut, Failure> {
    if sc.file {
        let mut r = FileReplica::new_file();
        run_script(&mut r, w, set, sc, flags)
    } else {
        let mut r = MemReplica::new_mem();
        run_script(&mut r, w, set, sc, flags)
    }
}

pub const HONEST: WorldOpts = WorldOpts {
    allow_poison: false,
    allow_parallel_finalize: false,
    allow_finalize: true,
};

fn classify(w: &World, info: &mut CaseInfo) -> (usize, usize) {
    let merges = w.cmds.iter().filter(|c| c.kind == Kind::Merge).count();
    let branches = (0..w.len()).filter(|i| w.children[*i].len() > 1).count();
    let n = w.len();
    info.label(match n {
        0..=12 => "tiny",
        13..=60 => "small",
        61..=300 => "medium",
        _ => "large",
    });
    if merges > 0 {
        info.label("has_merge");
    }
    if w.cmds.iter().any(|c| c.kind == Kind::Finalize) {
        info.label("has_finalize");
    }
    (merges, branches)
}

/// C03 oracle on one case.
pub fn check_c03(c: &Case, info: &mut CaseInfo) -> CheckResult {
    let w = World::from_recipe(&c.recipe, HONEST);
    let set = target_set(&w, c.subset);
    let (merges, branches) = classify(&w, info);
    let flags = Flags {
        facts_vs_model: true,
        audit: false,
        heads: true,
        merge_perspectives: true,
    };
    let mut multi = 0;
    for sc in &c.scripts {
        let o = run_on(sc, &w, &set, flags)?;
        multi += o.multi_head_commits;
        if sc.file {
            info.label("file_backend");
        }
    }
    if multi > 0 {
        info.label("multi_head_commit");
    }
    if branches > 0 && (merges > 0 || multi > 0) {
        info.nontrivial();
    }
    Ok(())
}

