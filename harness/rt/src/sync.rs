//! C16 / C17: repeated sync sessions deliver everything; sessions are sound and terminate.
use std::collections::BTreeSet;

use aranya_runtime::{
    Address, Command, CommandExt, MAX_SYNC_MESSAGE_SIZE, PeerCache, StorageProvider, SyncError, SyncIncoming,
    SyncRequester, SyncResponder,
};
use proptest::prelude::*;
use serde::{Deserialize, Serialize};
use vcommon::{CaseInfo, CheckResult, Ctx, Failure, Report, ensure, fail};

use crate::{
    replica::{DetRng, FileReplica, MemReplica, Replica},
    scenario::{Flags, HONEST, Script, run_script, script_strategy, short, shorts, target_set},
    txn::check_state,
    world::{Id, Step, World, strategies},
};

#[derive(Clone, Debug, Serialize, Deserialize)]
pub struct SyncCase {
    pub recipe: Vec<Step>,
    pub a_subset: u16,
    pub b_subset: u16,
    pub a_script: Script,
    pub b_script: Script,
    /// receive buffer size selector (0 = full size)
    pub buf_sel: u16,
    pub both_directions: bool,
}

pub fn sync_case(max_steps: usize, run_w: u32) -> impl Strategy<Value = SyncCase> {
    (
        strategies::recipe(max_steps, 1, run_w),
        prop_oneof![1 => Just(0u16), 3 => any::<u16>()],
        prop_oneof![2 => Just(0u16), 2 => any::<u16>()],
        script_strategy(),
        script_strategy(),
        prop_oneof![2 => Just(0u16), 1 => 1u16..2000],
        any::<bool>(),
    )
        .prop_map(|(recipe, a_subset, b_subset, a_script, b_script, buf_sel, both_directions)| SyncCase {
            recipe,
            a_subset,
            b_subset,
            a_script,
            b_script,
            buf_sel,
            both_directions,
        })
}

#[derive(Default, Debug)]
pub struct SessionOut {
    pub responses: u64,
    pub sent: Vec<(Id, u64)>,
    pub added: usize,
    pub grew_buffer: u64,
    pub sample_len: usize,
}

fn varint(b: &[u8], pos: &mut usize) -> Option<u128> {
    let mut v: u128 = 0;
    let mut shift = 0;
    loop {
        let x = *b.get(*pos)?;
        *pos += 1;
        v |= u128::from(x & 0x7f) << shift;
        if x & 0x80 == 0 {
            return Some(v);
        }
        shift += 7;
        if shift > 126 {
            return None;
        }
    }
}

/// (variant, session id, index) of a sync response header in postcard form.
fn response_header(b: &[u8]) -> Option<(u128, u128, u128)> {
    let mut p = 0;
    let variant = varint(b, &mut p)?;
    let sid = varint(b, &mut p)?;
    let idx = varint(b, &mut p)?;
    Some((variant, sid, idx))
}

/// One sync session: `a` requests from `b`.
pub fn session<SA: StorageProvider, SB: StorageProvider>(
    a: &mut Replica<SA>,
    b: &mut Replica<SB>,
    cache_a_of_b: &mut PeerCache,
    cache_b_of_a: &mut PeerCache,
    session_no: u64,
    buf_size: usize,
    b_ids: &BTreeSet<Id>,
) -> Result<SessionOut, Failure> {
    let mut out = SessionOut::default();
    let mut req = SyncRequester::new(a.gid, &DetRng(session_no));
    let mut trx = a.trx();
    let mut buf = vec![0u8; MAX_SYNC_MESSAGE_SIZE];
    let (len, sent) = {
        let heads = trx.session_heads(cache_a_of_b);
        req.poll(&mut buf, a.client.provider(), &heads, &mut a.bufs.traversal.primary)
            .map_err(|e| Failure::new("C17: requester poll failed", e.to_string()))?
    };
    out.sample_len = sent;
    let poll = match SyncIncoming::decode(&buf[..len]) {
        Ok(SyncIncoming::Poll(p)) => p,
        Ok(_) => fail!("C17: a poll request decoded as another message type", "session {session_no}"),
        Err(e) => fail!("C17: the responder cannot decode the requester's poll", "{e}"),
    };
    let mut resp = SyncResponder::new();
    resp.receive(poll).map_err(|e| Failure::new("C17: responder refused the poll", e.to_string()))?;
    let mut size = buf_size.clamp(1, MAX_SYNC_MESSAGE_SIZE);
    let mut target = vec![0u8; size];
    let mut received: Vec<Address> = Vec::new();
    let mut ended = false;
    let mut expect_index: u128 = 0;
    let mut session_id: Option<u128> = None;
    while !ended {
        ensure!(resp.ready(), "C17: session stopped without an end message", "after {} responses", out.responses);
        ensure!(out.responses <= 5000, "C17: session did not terminate", "5000 responses without an end message");
        let n = match resp.poll(&mut target, b.client.provider(), cache_b_of_a, &mut b.bufs.traversal) {
            Ok(n) => n,
            Err(SyncError::BufferTooSmall) | Err(SyncError::Serialize(_)) if size < MAX_SYNC_MESSAGE_SIZE => {
                // retry with a larger buffer: nothing may be lost or duplicated
                size = (size * 2).min(MAX_SYNC_MESSAGE_SIZE);
                target = vec![0u8; size];
                out.grew_buffer += 1;
                continue;
            }
            Err(e) => fail!("C17: responder poll failed", "{e}"),
        };
        let Some((variant, sid, idx)) = response_header(&target[..n]) else {
            fail!("C17: response header unreadable", "{} bytes", n)
        };
        if let Some(s) = session_id {
            ensure!(s == sid, "C17: session id changed within a session", "{s} -> {sid}");
        }
        session_id = Some(sid);
        match variant {
            0 => {
                ensure!(idx == expect_index, "C17: response indexes do not increase by one", "got {idx} want {expect_index}");
                expect_index += 1;
            }
            1 => {
                ensure!(idx == expect_index, "C17: end message reports the wrong number of responses", "max_index {idx} after {expect_index} responses");
            }
            v => fail!("C17: unexpected response message type in a poll session", "variant {v}"),
        }
        match req.receive(&target[..n]) {
            Ok(Some(cmds)) => {
                ensure!(variant == 0, "C17: end message carried commands", "");
                out.responses += 1;
                ensure!(!cmds.is_empty(), "C17: a response carried no commands", "response #{}", out.responses);
                let cmds_v: Vec<_> = cmds.into_iter().collect();
                for c in &cmds_v {
                    let ad = c.address().map_err(|e| Failure::new("C17: sent command has no valid address", e.to_string()))?;
                    let id = *ad.id.as_array();
                    ensure!(b_ids.contains(&id), "C17: the responder sent a command that is not committed in its graph", "{}", short(&id));
                    out.sent.push((id, ad.max_cut.get()));
                    received.push(ad);
                }
                let added = a
                    .client
                    .add_commands(&mut trx, &mut a.sink, &cmds_v, &mut a.bufs, crate::replica::CappedSpill::new)
                    .map_err(|e| {
                        Failure::new(
                            "C17: the requester could not add the received commands in order",
                            format!("response #{} [{}]: {e}", out.responses, shorts(&cmds_v.iter().map(|c| *c.id().as_array()).collect::<Vec<_>>())),
                        )
                    })?;
                out.added += added;
                a.flush(&mut trx).map_err(|e| Failure::new("C17: flush failed", e.to_string()))?;
            }
            Ok(None) => {
                ensure!(variant == 1, "C17: a command response was treated as the end of the session", "variant {variant}");
                ended = true;
            }
            Err(e) => fail!("C17: the requester rejected a response of its own session", "{e}"),
        }
    }
    ensure!(!resp.ready(), "C17: responder still ready after the end message", "");
    a.commit(trx).map_err(|e| Failure::new("C17: commit of synced commands failed", e.to_string()))?;
    if !received.is_empty() {
        a.client
            .update_heads(a.gid, received.iter().copied(), cache_a_of_b, &mut a.bufs.traversal.primary)
            .map_err(|e| Failure::new("C20: update_heads failed", e.to_string()))?;
    }
    Ok(out)
}

#[derive(Default)]
pub struct DirOut {
    pub soft: Option<Failure>,
    pub sessions: u64,
    pub zero_progress: u64,
    pub multi_response: bool,
    pub grew: bool,
}

/// Sessions `a <- b` until a session is empty.
pub fn drain<SA: StorageProvider, SB: StorageProvider>(
    a: &mut Replica<SA>,
    b: &mut Replica<SB>,
    w: &World,
    a_set: &mut BTreeSet<usize>,
    b_set: &BTreeSet<usize>,
    caches: (&mut PeerCache, &mut PeerCache),
    buf_size: usize,
    session_base: u64,
) -> Result<DirOut, Failure> {
    let (ca, cb) = caches;
    let b_ids: BTreeSet<Id> = b_set.iter().map(|i| w.cmds[*i].id).collect();
    let mut out = DirOut::default();
    let mut last_was_zero = false;
    let missing0 = b_set.difference(a_set).count() as u64;
    let common0 = b_set.intersection(a_set).count() as u64;
    let bound = missing0 + missing0 / 50 + 4;
    loop {
        let missing: BTreeSet<usize> = b_set.difference(a_set).copied().collect();
        let caches_before: Vec<(Id, u64)> = ca
            .heads()
            .iter()
            .chain(cb.heads().iter())
            .map(|h| (*h.id.as_array(), h.max_cut.get()))
            .collect();
        let s = session(a, b, ca, cb, session_base + out.sessions, buf_size, &b_ids)?;
        out.sessions += 1;
        if s.responses > 1 {
            out.multi_response = true;
        }
        if s.grew_buffer > 0 {
            out.grew = true;
        }
        let now: BTreeSet<Id> = a.committed_ids().map_err(|e| Failure::new("C11: committed graph walk failed", e))?;
        let mut new_set = a_set.clone();
        for (id, _) in &s.sent {
            new_set.insert(w.by_id[id]);
        }
        let want: BTreeSet<Id> = new_set.iter().map(|i| w.cmds[*i].id).collect();
        ensure!(
            now == want,
            "C17: after a session the requester's graph is not its previous graph plus the commands sent",
            "missing [{}] extra [{}]",
            shorts(&want.difference(&now).copied().collect::<Vec<_>>()),
            shorts(&now.difference(&want).copied().collect::<Vec<_>>())
        );
        let gained = new_set.len() - a_set.len();
        if std::env::var_os("VH_SYNC_TRACE").is_some() && gained == 0 && out.zero_progress == 3 {
            let mc = |i: &usize| w.cmds[*i].max_cut;
            println!("DUMP missing max_cuts {:?}", missing.iter().map(mc).collect::<Vec<_>>());
            println!("DUMP sent max_cuts {:?}", s.sent.iter().map(|x| x.1).collect::<Vec<_>>());
            println!("DUMP a heads {:?}", a.heads().unwrap().iter().map(|h| (short(&h.0), h.1)).collect::<Vec<_>>());
            println!("DUMP b heads {:?}", b.heads().unwrap().iter().map(|h| (short(&h.0), h.1)).collect::<Vec<_>>());
            println!("DUMP cache_a_of_b {:?}", ca.heads().iter().map(|h| (short(h.id.as_array()), h.max_cut.get())).collect::<Vec<_>>());
            println!("DUMP cache_b_of_a {:?}", cb.heads().iter().map(|h| (short(h.id.as_array()), h.max_cut.get())).collect::<Vec<_>>());
            // parents of missing commands: which are held by A
            let mut roots = Vec::new();
            for m in &missing {
                if w.cmds[*m].parents.iter().all(|p| a_set.contains(p)) {
                    roots.push((short(&w.cmds[*m].id), w.cmds[*m].max_cut, w.cmds[*m].kind));
                }
            }
            println!("DUMP missing roots (all parents at A) {:?}", roots);
            let bw = b.walk().unwrap();
            let mut segs: std::collections::BTreeMap<u64, Vec<(u64, bool)>> = Default::default();
            for (id, wc) in &bw {
                segs.entry(wc.loc.segment.get()).or_default().push((wc.max_cut, a_set.contains(&w.by_id[id])));
            }
            for (sidx, v) in &segs {
                let mut v = v.clone();
                v.sort();
                let have = v.iter().filter(|x| x.1).count();
                println!("DUMP bseg {} mc {}..{} len {} a_has {}", sidx, v[0].0, v[v.len() - 1].0, v.len(), have);
            }
        }
        if std::env::var_os("VH_SYNC_TRACE").is_some() && out.sessions < 40 {
            println!(
                "trace: session {} missing {} sample {} responses {} sent {} gained {} cache_a_of_b {} cache_b_of_a {}",
                out.sessions,
                missing.len(),
                s.sample_len,
                s.responses,
                s.sent.len(),
                gained,
                ca.heads().len(),
                cb.heads().len()
            );
        }
        *a_set = new_set;
        check_state(a, w, a_set, &format!("after session {}", out.sessions))?;
        if missing.is_empty() {
            // re-sending commands the requester already holds is allowed; gaining one is impossible
            ensure!(gained == 0, "HARNESS: gained a command although nothing was missing", "");
            break;
        }
        if gained == 0 {
            out.zero_progress += 1;
            let detail = format!(
                "session {}: missing {} commands, sample of {} addresses, {} responses, {} commands sent",
                out.sessions,
                missing.len(),
                s.sample_len,
                s.responses,
                s.sent.len()
            );
            // A stall: nothing at all was sent, or two sessions in a row without progress.
            ensure!(!s.sent.is_empty(), "C16: a sync session delivered nothing at all while commands were missing", "{detail}");
            // Every such session re-sends >= 1 response (up to 100 commands) of the prefix both sides share
            // and the requester then records it in its peer cache, so their number is bounded by the
            // size of that shared prefix; beyond that the sync is stalled.
            let caches_now: Vec<(Id, u64)> = ca
                .heads()
                .iter()
                .chain(cb.heads().iter())
                .map(|h| (*h.id.as_array(), h.max_cut.get()))
                .collect();
            if caches_now == caches_before {
                // Nothing changed at all: requester graph, both peer caches. The next session is a pure function of
                // that state, so it will be identical: the sync is livelocked.
                // Listed finding (F20): every head of the requester is known to the responder, which nevertheless
                // schedules (lowest first, capped at 100 segments) history the requester already holds. A livelock
                // in any other situation keeps the generic signature.
                let heads_known = a.heads().map(|h| h.iter().all(|x| b_ids.contains(&x.0))).unwrap_or(false);
                let sig = if heads_known {
                    "C16: sync stalled: the responder keeps re-sending held history although every head of the requester (its whole sample) is known to it"
                } else {
                    "C16: repeated sync sessions deliver no missing command (stalled)"
                };
                return Err(Failure::new(
                    sig,
                    format!(
                        "{detail}; session changed neither the requester's graph nor either peer cache; {} sessions without progress so far, {common0} shared commands; requester heads known to responder: {heads_known}",
                        out.zero_progress
                    ),
                ));
            }
            ensure!(
                out.zero_progress <= common0 + 10,
                "C16: repeated sync sessions deliver no missing command (stalled)",
                "{detail}; {} sessions without progress, {common0} shared commands",
                out.zero_progress
            );
            last_was_zero = true;
            // Listed finding: the responder located none of the requester's sampled commands and re-sent
            // only commands the requester already holds; progress resumes through the peer cache. Soft: the
            // rest of the case is still checked and any other violation is reported in preference.
            if out.soft.is_none() {
                out.soft = Some(Failure::new(
                    "C16: a sync session re-sent only commands the requester already holds while commands were missing",
                    detail,
                ));
            }
        } else {
            last_was_zero = false;
        }
        let _ = last_was_zero;
        ensure!(
            out.sessions <= bound + out.zero_progress,
            "C16: too many sessions needed",
            "{} sessions ({} without progress) for {missing0} missing commands",
            out.sessions,
            out.zero_progress
        );
    }
    ensure!(b_set.is_subset(a_set), "C16: requester still lacks commands after an empty session", "");
    Ok(out)
}

fn check_pair<SA: StorageProvider, SB: StorageProvider>(
    a: &mut Replica<SA>,
    b: &mut Replica<SB>,
    c: &SyncCase,
    w: &World,
    info: &mut CaseInfo,
) -> CheckResult {
    let mut a_set = target_set(w, c.a_subset);
    let mut b_set = target_set(w, c.b_subset);
    run_script(a, w, &a_set, &c.a_script, Flags::default())?;
    run_script(b, w, &b_set, &c.b_script, Flags::default())?;
    let buf = if c.buf_sel == 0 { MAX_SYNC_MESSAGE_SIZE } else { c.buf_sel as usize };
    let missing = b_set.difference(&a_set).count();
    info.label(match missing {
        0 => "missing0",
        1..=20 => "missing1-20",
        21..=100 => "missing21-100",
        _ => "missing>100",
    });
    if a_set.difference(&b_set).count() > 0 && missing > 0 {
        info.label("divergent");
    }
    let mut cab = PeerCache::new();
    let mut cba = PeerCache::new();
    let d = drain(a, b, w, &mut a_set, &b_set, (&mut cab, &mut cba), buf, 1)?;
    let mut soft = d.soft.clone();
    if d.zero_progress > 0 {
        info.label("zero_progress_session");
    }
    if d.sessions > 2 || d.multi_response {
        info.nontrivial();
    }
    if d.sessions > 2 {
        info.label("multi_session");
    }
    if d.multi_response {
        info.label("multi_response");
    }
    if d.grew {
        info.label("buffer_retry");
    }
    if c.both_directions {
        // alternate until neither side receives anything, then both must agree (C01's predicate)
        let mut round = 0;
        loop {
            round += 1;
            let before_b = b_set.len();
            let a_snapshot = a_set.clone();
            let d1 = drain(b, a, w, &mut b_set, &a_snapshot, (&mut cba, &mut cab), buf, 1000 * round)?;
            soft = soft.or(d1.soft);
            let before_a = a_set.len();
            let b_snapshot = b_set.clone();
            let d2 = drain(a, b, w, &mut a_set, &b_snapshot, (&mut cab, &mut cba), buf, 1000 * round + 500)?;
            soft = soft.or(d2.soft);
            if b_set.len() == before_b && a_set.len() == before_a {
                break;
            }
            ensure!(round < 6, "C16: bidirectional sync does not settle", "{round} rounds");
        }
        ensure!(a_set == b_set, "C16: replicas hold different commands after syncing both ways until quiet", "");
        let oa = a.obs().map_err(|e| Failure::new("observation failed", e))?;
        let ob = b.obs().map_err(|e| Failure::new("observation failed", e))?;
        ensure!(oa == ob, "C16: replicas did not converge after syncing both ways until quiet", "{oa:?} vs {ob:?}");
        info.label("bidirectional");
    }
    match soft {
        Some(f) => Err(f),
        None => Ok(()),
    }
}

fn check(c: &SyncCase, info: &mut CaseInfo) -> CheckResult {
    let w = World::from_recipe(&c.recipe, HONEST);
    match (c.a_script.file, c.b_script.file) {
        (false, false) => check_pair(&mut MemReplica::new_mem(), &mut MemReplica::new_mem(), c, &w, info),
        (true, false) => check_pair(&mut FileReplica::new_file(), &mut MemReplica::new_mem(), c, &w, info),
        (false, true) => check_pair(&mut MemReplica::new_mem(), &mut FileReplica::new_file(), c, &w, info),
        (true, true) => check_pair(&mut FileReplica::new_file(), &mut FileReplica::new_file(), c, &w, info),
    }
}

/// Development aid (VH_DDMIN=<file>): delta-debugs the recipe of a failing replay case while the same
/// signature persists and writes `<file>.min.json`.
pub fn ddmin(path: &str) {
    let rf: vcommon::ReplayFile = serde_json::from_slice(&std::fs::read(path).unwrap()).unwrap();
    let mut c: SyncCase = serde_json::from_value(rf.case.clone()).unwrap();
    let sig = rf.signature.clone();
    let fails = |c: &SyncCase| -> bool {
        let mut info = CaseInfo::default();
        match vcommon::catch(|| check(c, &mut info)) {
            Ok(Err(f)) => f.signature == sig,
            _ => false,
        }
    };
    assert!(fails(&c), "case does not fail with {sig}");
    let mut n = 2usize;
    while c.recipe.len() >= 2 {
        let len = c.recipe.len();
        let chunk = len.div_ceil(n);
        let mut reduced = false;
        for i in 0..n {
            let lo = i * chunk;
            if lo >= len {
                break;
            }
            let hi = (lo + chunk).min(len);
            let mut t = c.clone();
            t.recipe.drain(lo..hi);
            if !t.recipe.is_empty() && fails(&t) {
                c = t;
                n = n.saturating_sub(1).max(2);
                reduced = true;
                println!("ddmin: {} steps", c.recipe.len());
                break;
            }
        }
        if !reduced {
            if n >= len {
                break;
            }
            n = (n * 2).min(len);
        }
    }
    // simplify scripts
    for f in [0, 1] {
        let mut t = c.clone();
        let sc = if f == 0 { &mut t.a_script } else { &mut t.b_script };
        sc.dup_pct = 0;
        sc.flush_pct = 0;
        if fails(&t) {
            c = t;
        }
    }
    let mut t = c.clone();
    t.buf_sel = 0;
    if fails(&t) {
        c = t;
    }
    let out = vcommon::ReplayFile {
        case: serde_json::to_value(&c).unwrap(),
        ..rf
    };
    std::fs::write(format!("{path}.min.json"), serde_json::to_vec_pretty(&out).unwrap()).unwrap();
    println!("ddmin: done, {} steps", c.recipe.len());
}


// ---------------------------------------------------------------------------------------------
// C01: replicas built through generated sync topologies

#[derive(Clone, Debug, Serialize, Deserialize)]
pub struct TopoCase {
    pub recipe: Vec<Step>,
    /// per replica: subset selector and delivery script
    pub replicas: Vec<(u16, Script)>,
    /// ordered (requester, responder) pairs
    pub syncs: Vec<(u8, u8)>,
}

pub fn topo_case() -> impl Strategy<Value = TopoCase> {
    (
        strategies::recipe(45, 1, 2),
        prop::collection::vec((any::<u16>(), script_strategy()), 3..5),
        prop::collection::vec((0u8..4, 0u8..4), 4..24),
    )
        .prop_map(|(recipe, replicas, syncs)| TopoCase { recipe, replicas, syncs })
}

/// Replicas that end up holding the same committed commands, whichever peers they got them from and in
/// whatever order, must report the same heads, facts and hello head (and match the reference model).
pub fn check_topology(c: &TopoCase, info: &mut CaseInfo) -> CheckResult {
    let w = World::from_recipe(&c.recipe, HONEST);
    let n = c.replicas.len();
    let mut reps: Vec<MemReplica> = Vec::new();
    let mut sets: Vec<BTreeSet<usize>> = Vec::new();
    for (sub, sc) in &c.replicas {
        let set = target_set(&w, *sub);
        let mut r = MemReplica::new_mem();
        let mut sc = sc.clone();
        sc.file = false;
        run_script(&mut r, &w, &set, &sc, Flags::default())?;
        reps.push(r);
        sets.push(set);
    }
    let mut caches: Vec<Vec<PeerCache>> = (0..n).map(|_| (0..n).map(|_| PeerCache::new()).collect()).collect();
    let mut transfers = 0usize;
    let mut order: Vec<(usize, usize)> = c.syncs.iter().map(|(a, b)| (*a as usize % n, *b as usize % n)).filter(|(a, b)| a != b).collect();
    // finish with two all-pairs rounds so that many replicas end up with equal sets
    for _ in 0..2 {
        for a in 0..n {
            for b in 0..n {
                if a != b {
                    order.push((a, b));
                }
            }
        }
    }
    for (k, (a, b)) in order.iter().enumerate() {
        let (a, b) = (*a, *b);
        let b_ids: BTreeSet<Id> = sets[b].iter().map(|i| w.cmds[*i].id).collect();
        // split borrows: requester a, responder b
        let (ra, rb) = if a < b {
            let (x, y) = reps.split_at_mut(b);
            (&mut x[a], &mut y[0])
        } else {
            let (x, y) = reps.split_at_mut(a);
            (&mut y[0], &mut x[b])
        };
        let (ca, cb) = {
            // caches[a][b] = what a knows b has; caches[b][a] = what b knows a has
            let (lo, hi) = if a < b { (a, b) } else { (b, a) };
            let (x, y) = caches.split_at_mut(hi);
            if a < b { (&mut x[lo][b], &mut y[0][a]) } else { (&mut y[0][b], &mut x[lo][a]) }
        };
        match session(ra, rb, ca, cb, 7000 + k as u64, MAX_SYNC_MESSAGE_SIZE, &b_ids) {
            Ok(s) => {
                for (id, _) in &s.sent {
                    if sets[a].insert(w.by_id[id]) {
                        transfers += 1;
                    }
                }
            }
            Err(f) => return Err(f),
        }
    }
    // every replica matches the model for what it holds, and equal sets give equal observations
    let mut obs = Vec::new();
    for (i, r) in reps.iter_mut().enumerate() {
        check_state(r, &w, &sets[i], &format!("replica {i} after syncing"))?;
        obs.push(r.obs().map_err(|e| Failure::new("observation failed", e))?);
    }
    let mut equal_pairs = 0;
    for i in 0..n {
        for j in i + 1..n {
            if sets[i] == sets[j] {
                equal_pairs += 1;
                ensure!(obs[i].heads == obs[j].heads, "C01: replicas with the same commands report different head sets", "replicas {i} and {j} after sync topology");
                ensure!(obs[i].facts == obs[j].facts, "C01: replicas with the same commands answer fact queries differently", "replicas {i} and {j} after sync topology");
                ensure!(obs[i].hello == obs[j].hello, "C01: replicas with the same commands advertise different hello heads", "replicas {i} and {j} after sync topology");
            }
        }
    }
    if equal_pairs > 0 {
        info.label("equal_sets_reached");
    }
    if transfers > 0 && equal_pairs > 0 {
        info.nontrivial();
    }
    info.label(format!("replicas{n}"));
    Ok(())
}

pub fn run(ctx: &Ctx, which: &str) -> ! {
    if let Ok(p) = std::env::var("VH_DDMIN") {
        ddmin(&p);
        std::process::exit(0);
    }
    let mut rep = Report::new(ctx, "exploration");
    rep.assume("the driver mirrors a transport: one persistent PeerCache per direction, update_heads after each session, one transaction per session");
    rep.assume("liveness is decided as bounded progress: every session must deliver >= 1 missing command while any is missing, and the number of sessions is bounded by missing + missing/50 + 4");
    let _ = which;
    rep.explore(
        "sync_small",
        "a world (<= 60 recipe steps) and two downward-closed subsets (equal, nested, divergent) built on replicas A and B by \
         generated delivery scripts; A requests from B in repeated sessions (persistent peer caches, generated receive-buffer \
         size with BufferTooSmall retries) until a session is empty, optionally alternating both directions until quiet; \
         oracles per session: response indexes 0,1,2.., exactly one end message with the right count, every sent command committed \
         at B, add_commands of each response succeeds in order, A == previous + sent, >= 1 missing command gained while any is \
         missing; finally A >= B and (bidirectional) identical heads/facts/hello; non-trivial = more than 2 sessions or a \
         multi-response session",
        || sync_case(60, 2),
        ctx.pick(700, 16_000),
        check,
    );
    rep.explore(
        "sync_large",
        "same with <= 400 recipe steps dominated by runs (hundreds to thousands of commands: beyond 100 commands per response and \
         100 segments per session)",
        || sync_case(400, 14),
        ctx.pick(24, 500),
        check,
    );
    rep.finish()
}
