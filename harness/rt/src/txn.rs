//! Stateful transaction/action engine: generated op sequences over several concurrently open
//! transactions and actions on one replica, against a set-based model of the committed graph
//! (C04, C05, C06, C08, C09; also exercises C03 after every commit).

use std::collections::{BTreeSet, VecDeque};

use aranya_runtime::{ClientError, PolicyError, StorageProvider, Transaction};
use proptest::prelude::*;
use serde::{Deserialize, Serialize};
use vcommon::{CaseInfo, CheckResult, Failure, ensure, fail};

use crate::{
    policy::{ActionScript, AuditStore, Eff, Place, Publish, SinkEv},
    replica::{FileReplica, MemReplica, Replica, owned_of},
    scenario::{fmt_facts, frontier_sorted, ids_of, short, shorts},
    world::{Body, Facts, Id, Kind, Payload, Step, World, WorldOpts, merge_id, strategies},
};

#[derive(Clone, Debug, Serialize, Deserialize)]
pub enum Pick {
    /// a command not yet present whose parents are all present in this transaction's view
    Ready(u16),
    /// any command of the world (missing parents, poison, descendants of poison, duplicates ...)
    Any(u16),
    /// a command already present (committed or accepted by this transaction)
    Dup(u16),
    /// a parentless command with a foreign id
    ForeignInit,
}

#[derive(Clone, Debug, Serialize, Deserialize)]
pub enum TOp {
    Add(u8, Vec<Pick>),
    Flush(u8),
    Commit(u8),
    DropTrx(u8),
    /// publish these bodies as one action; `dump` records the fact view the action observes
    Action(Vec<Body>, bool),
}

#[derive(Clone, Debug, Serialize, Deserialize)]
pub struct TxCase {
    pub recipe: Vec<Step>,
    pub ops: Vec<TOp>,
    pub file: bool,
}

pub fn pick_strategy() -> impl Strategy<Value = Pick> {
    prop_oneof![
        12 => any::<u16>().prop_map(Pick::Ready),
        2 => any::<u16>().prop_map(Pick::Any),
        2 => any::<u16>().prop_map(Pick::Dup),
        1 => Just(Pick::ForeignInit),
    ]
}

pub fn top_strategy(slots: u8, action_w: u32, fin: u32) -> impl Strategy<Value = TOp> {
    prop_oneof![
        10 => (0..slots, prop::collection::vec(pick_strategy(), 1..8)).prop_map(|(t, p)| TOp::Add(t, p)),
        2 => (0..slots).prop_map(TOp::Flush),
        4 => (0..slots).prop_map(TOp::Commit),
        1 => (0..slots).prop_map(TOp::DropTrx),
        action_w => (prop::collection::vec(strategies::body(fin), 1..4), any::<bool>()).prop_map(|(b, d)| TOp::Action(b, d)),
    ]
}

pub fn txcase_strategy(
    max_steps: usize,
    max_ops: usize,
    slots: u8,
    action_w: u32,
    fin: u32,
) -> impl Strategy<Value = TxCase> {
    (
        strategies::recipe(max_steps, fin, 1),
        prop::collection::vec(top_strategy(slots, action_w, fin), 1..max_ops),
        prop::bool::weighted(0.1),
    )
        .prop_map(|(recipe, ops, file)| TxCase { recipe, ops, file })
}

struct TrxModel {
    /// epoch of the committed head set when the transaction first read it
    started: Option<u64>,
    acc: BTreeSet<usize>,
}

#[derive(Debug, PartialEq, Eq, Clone)]
enum Expect {
    Ok(usize),
    NoSuchParent(Vec<Id>),
    Rejected,
    ParallelFinalize,
    InitError,
}

fn classify_err(e: &ClientError) -> String {
    match e {
        ClientError::NoSuchParent(_) => "NoSuchParent".into(),
        ClientError::PolicyError(PolicyError::Rejected) => "Rejected".into(),
        ClientError::PolicyError(p) => format!("PolicyError({p})"),
        ClientError::ParallelFinalize => "ParallelFinalize".into(),
        ClientError::InitError => "InitError".into(),
        ClientError::ConcurrentTransaction => "ConcurrentTransaction".into(),
        ClientError::StorageError(s) => format!("StorageError({s})"),
        other => format!("{other}"),
    }
}

pub struct Stats {
    pub overlapping_commits: usize,
    pub concurrent_errors: usize,
    pub rejected: usize,
    pub after_reject_deliveries: usize,
    pub missing_parent: usize,
    pub parallel_finalize_errors: usize,
    pub multi_head_states: usize,
    pub actions_ok: usize,
    pub actions_multi_head: usize,
    pub actions_failed: usize,
    pub commits_ok: usize,
    pub stale_adds: usize,
}

pub fn foreign_init() -> crate::policy::OwnedCmd {
    let mut id = crate::world::init_id();
    id[31] ^= 0x55;
    crate::policy::OwnedCmd::from_wire(&crate::policy::WireCmd {
        id,
        kind: Kind::Init,
        parents: vec![],
        payload: Payload::empty(),
    })
}

pub fn run_tx<SP: StorageProvider>(
    rep: &mut Replica<SP>,
    c: &TxCase,
    opts: WorldOpts,
    stats: &mut Stats,
) -> CheckResult {
    let mut w = World::from_recipe(&c.recipe, opts);
    // create the graph through a transaction carrying the init command
    {
        let mut t = rep.trx();
        let n = rep
            .add(&mut t, &[owned_of(&w, 0)])
            .map_err(|e| Failure::new("C10: creating the graph from its init command failed", classify_err(&e)))?;
        ensure!(n == 1, "C10: creating the graph from its init command returned the wrong count", "{n}");
        rep.commit(t).map_err(|e| Failure::new("C10: committing the init command failed", classify_err(&e)))?;
    }
    let mut committed: BTreeSet<usize> = BTreeSet::new();
    committed.insert(0);
    let mut epoch: u64 = 0;
    let nslots = 4usize;
    let mut models: Vec<Option<TrxModel>> = (0..nslots).map(|_| None).collect();
    let mut trxs: Vec<Option<Transaction<SP, AuditStore>>> = (0..nslots).map(|_| None).collect();
    let mut rejected_ids: BTreeSet<Id> = BTreeSet::new();
    let mut had_reject_in: BTreeSet<usize> = BTreeSet::new();
    check_state(rep, &w, &committed, "after init")?;

    for (opi, op) in c.ops.iter().enumerate() {
        let what = format!("op#{opi} {op:?}");
        match op {
            TOp::Add(t, picks) => {
                let t = *t as usize % nslots;
                if trxs[t].is_none() {
                    trxs[t] = Some(rep.trx());
                    models[t] = Some(TrxModel {
                        started: None,
                        acc: BTreeSet::new(),
                    });
                }
                let m = models[t].as_mut().unwrap();
                // resolve picks against the model view *before* the call, sequentially
                let mut view: BTreeSet<usize> = committed.union(&m.acc).copied().collect();
                let mut batch: Vec<Option<usize>> = Vec::new(); // None = foreign init
                let mut expect = Expect::Ok(0);
                let mut count = 0usize;
                let mut newly: Vec<usize> = Vec::new();
                for p in picks {
                    let ready: Vec<usize> = (0..w.len())
                        .filter(|i| !view.contains(i) && w.cmds[*i].parents.iter().all(|q| view.contains(q)) && *i != 0)
                        .collect();
                    let pick = match p {
                        Pick::ForeignInit => None,
                        Pick::Ready(s) if !ready.is_empty() => Some(ready[vcommon::idx(*s, ready.len())]),
                        Pick::Dup(s) => {
                            let v: Vec<usize> = view.iter().copied().collect();
                            Some(v[vcommon::idx(*s, v.len())])
                        }
                        Pick::Ready(s) | Pick::Any(s) => Some(vcommon::idx(*s, w.len())),
                    };
                    batch.push(pick);
                    if expect != Expect::Ok(count) {
                        continue; // the call stops at the first error; later picks are never looked at
                    }
                    let Some(i) = pick else {
                        expect = Expect::InitError;
                        continue;
                    };
                    if view.contains(&i) {
                        continue; // already present: skipped silently (incl. the graph's own init)
                    }
                    let cm = &w.cmds[i];
                    let missing: Vec<Id> = cm.parents.iter().filter(|q| !view.contains(q)).map(|q| w.cmds[*q].id).collect();
                    if !missing.is_empty() {
                        expect = Expect::NoSuchParent(missing);
                        continue;
                    }
                    if cm.kind == Kind::Merge {
                        if cm.bad_merge {
                            expect = Expect::ParallelFinalize;
                            continue;
                        }
                    } else if cm.rejected_at_origin {
                        // parents are present and honest, so this command itself is the poison
                        expect = Expect::Rejected;
                        rejected_ids.insert(cm.id);
                        continue;
                    }
                    view.insert(i);
                    newly.push(i);
                    count += 1;
                    expect = Expect::Ok(count);
                }
                let cmds: Vec<_> = batch.iter().map(|b| b.map(|i| owned_of(&w, i)).unwrap_or_else(foreign_init)).collect();
                let r = rep.add(trxs[t].as_mut().unwrap(), &cmds);
                let m = models[t].as_mut().unwrap();
                if m.started.is_none() {
                    m.started = Some(epoch);
                }
                if had_reject_in.contains(&t) && !newly.is_empty() {
                    stats.after_reject_deliveries += 1;
                }
                m.acc.extend(newly.iter().copied());
                // A transaction that another commit has overtaken can never commit; what its further
                // add_commands calls return is not constrained by any property (the same command may now
                // be stored twice, once per transaction), only the committed state is (checked below).
                let stale = m.started.is_some_and(|e0| e0 != epoch);
                if stale {
                    stats.stale_adds += 1;
                    let _ = &r;
                    check_state(rep, &w, &committed, &what)?;
                    continue;
                }
                let bdesc = batch.iter().map(|b| b.map(|i| short(&w.cmds[i].id)).unwrap_or("foreign-init".into())).collect::<Vec<_>>().join(",");
                match (&r, &expect) {
                    (Ok(n), Expect::Ok(k)) => {
                        ensure!(n == k, "C06: add_commands accepted a different number of commands than the model", "{what}: batch [{bdesc}] got {n} want {k}");
                    }
                    (Err(ClientError::NoSuchParent(id)), Expect::NoSuchParent(ids)) => {
                        stats.missing_parent += 1;
                        ensure!(ids.contains(id.as_array()), "C06: NoSuchParent names the wrong parent", "{what}: got {id} want one of [{}]", shorts(ids));
                    }
                    (Err(ClientError::PolicyError(PolicyError::Rejected)), Expect::Rejected) => {
                        stats.rejected += 1;
                        had_reject_in.insert(t);
                    }
                    (Err(ClientError::ParallelFinalize), Expect::ParallelFinalize) => {
                        stats.parallel_finalize_errors += 1;
                    }
                    (Err(ClientError::InitError), Expect::InitError) => {}
                    (got, want) => {
                        let g = match got {
                            Ok(n) => format!("Ok({n})"),
                            Err(e) => classify_err(e),
                        };
                        let sig = match want {
                            Expect::ParallelFinalize => "C05: merge over two unordered finalize commands was not refused with ParallelFinalize",
                            Expect::Rejected => "C06: a command its policy rejects was not refused",
                            Expect::NoSuchParent(_) => "C06: a command with a missing parent was not refused with NoSuchParent",
                            Expect::InitError => "C10: a foreign parentless command was not refused with InitError",
                            Expect::Ok(_) => match got {
                                Err(ClientError::ParallelFinalize) => "C05: ParallelFinalize raised although all finalize commands are ordered",
                                Err(ClientError::NoSuchParent(_)) => "C06: an acceptable command was refused as having a missing parent",
                                _ => "C06: an acceptable command was refused",
                            },
                        };
                        fail!(sig, "{what}: batch [{bdesc}] got {g} want {want:?}");
                    }
                }
            }
            TOp::Flush(t) => {
                let t = *t as usize % nslots;
                if let Some(trx) = trxs[t].as_mut() {
                    rep.flush(trx).map_err(|e| Failure::new("C06: flush failed", format!("{what}: {}", classify_err(&e))))?;
                }
            }
            TOp::DropTrx(t) => {
                let t = *t as usize % nslots;
                trxs[t] = None;
                models[t] = None;
                had_reject_in.remove(&t);
            }
            TOp::Commit(t) => {
                let t = *t as usize % nslots;
                let (Some(trx), Some(m)) = (trxs[t].take(), models[t].take()) else { continue };
                had_reject_in.remove(&t);
                let others_open = models.iter().filter(|x| x.as_ref().is_some_and(|x| x.started.is_some())).count();
                let r = rep.commit(trx);
                match m.started {
                    None => {
                        ensure!(r.is_ok(), "C08: commit of an unused transaction failed", "{what}: {}", r.err().map(|e| classify_err(&e)).unwrap_or_default());
                    }
                    Some(e0) if e0 != epoch => {
                        stats.concurrent_errors += 1;
                        match r {
                            Err(ClientError::ConcurrentTransaction) => {}
                            other => fail!(
                                "C08: commit after an intervening commit did not fail with ConcurrentTransaction",
                                "{what}: got {}",
                                other.map(|b| format!("Ok({b})")).unwrap_or_else(|e| classify_err(&e))
                            ),
                        }
                    }
                    Some(_) => {
                        let newset: BTreeSet<usize> = committed.union(&m.acc).copied().collect();
                        let f = frontier_sorted(&w, &newset);
                        let pf = f.len() > 1 && w.region_has_parallel_finalize(&f);
                        if pf {
                            stats.parallel_finalize_errors += 1;
                            match r {
                                Err(ClientError::ParallelFinalize) => {}
                                other => fail!(
                                    "C05: commit over two unordered finalize commands was not refused with ParallelFinalize",
                                    "{what}: heads [{}] got {}",
                                    shorts(&ids_of(&w, &f)),
                                    other.map(|b| format!("Ok({b})")).unwrap_or_else(|e| classify_err(&e))
                                ),
                            }
                        } else {
                            match r {
                                Ok(_) => {}
                                Err(ClientError::ParallelFinalize) => fail!(
                                    "C05: ParallelFinalize raised although all finalize commands are ordered",
                                    "{what}: heads [{}]",
                                    shorts(&ids_of(&w, &f))
                                ),
                                Err(ClientError::ConcurrentTransaction) => {
                                    fail!("C08: ConcurrentTransaction although no commit happened since the transaction started", "{what}")
                                }
                                Err(e) => fail!("C08: commit failed", "{what}: {}", classify_err(&e)),
                            }
                            if others_open > 0 {
                                stats.overlapping_commits += 1;
                            }
                            stats.commits_ok += 1;
                            committed = newset;
                            epoch += 1;
                            if f.len() > 1 {
                                stats.multi_head_states += 1;
                            }
                        }
                    }
                }
            }
            TOp::Action(bodies, dump) => {
                let f = frontier_sorted(&w, &committed);
                let before = rep.obs().map_err(|e| Failure::new("observation failed", e))?;
                let hello_loc_before = rep.locate(&before.hello.0, before.hello.1).map_err(|e| Failure::new("get_location failed", e))?;
                // model of the collapse: pairwise fold over the id-sorted head set
                let mut q: VecDeque<usize> = f.iter().copied().collect();
                let mut merges: Vec<usize> = Vec::new();
                while q.len() > 1 {
                    let l = q.pop_front().unwrap();
                    let r = q.pop_front().unwrap();
                    let id = merge_id(&w.cmds[l].id, &w.cmds[r].id);
                    let mi = match w.by_id.get(&id) {
                        Some(i) => *i,
                        None => {
                            let (a, b) = if w.cmds[l].id < w.cmds[r].id { (l, r) } else { (r, l) };
                            w.push(id, Kind::Merge, vec![a, b], Payload::empty())
                        }
                    };
                    merges.push(mi);
                    q.push_back(mi);
                }
                let head = q[0];
                ensure!(w.honest(head), "HARNESS: collapse of a committed head set is not honest in the model", "{what}");
                // C04: hello head == address of the merge the collapse writes
                ensure!(
                    before.hello == (w.cmds[head].id, w.cmds[head].max_cut),
                    "C04: hello head is not the address of the merge the collapse writes",
                    "{what}: hello {}@{} model {}@{}",
                    short(&before.hello.0),
                    before.hello.1,
                    short(&w.cmds[head].id),
                    w.cmds[head].max_cut
                );
                if f.len() > 1 {
                    ensure!(hello_loc_before.is_none(), "C04: synthetic hello head already committed before the collapse", "{what}");
                }
                // build the publishes on top of `head`
                let mut parent = head;
                let mut pubs = Vec::new();
                let mut new_cmds = Vec::new();
                let mut fail_at: Option<usize> = None;
                for (k, b) in bodies.iter().enumerate() {
                    let kind = action_kind(&w, parent, b, opts);
                    let payload = action_payload(&w, parent, b, opts);
                    let id = w.fresh_id(b.id_hi ^ 0xA000);
                    let i = w.push(id, kind, vec![parent], payload.clone());
                    pubs.push(Publish { id, kind, payload });
                    new_cmds.push(i);
                    if w.cmds[i].rejected_at_origin {
                        fail_at = Some(k);
                        break;
                    }
                    parent = i;
                }
                let sink_before = rep.sink.log.len();
                let dumps_before = rep.audit.dumps.borrow().len();
                let parents_before = rep.audit.action_parents.borrow().len();
                let r = rep.action(ActionScript {
                    init: false,
                    dump: *dump,
                    publishes: pubs.clone(),
                });
                // what the action saw
                if *dump {
                    let d = rep.audit.dumps.borrow();
                    ensure!(d.len() == dumps_before + 1, "HARNESS: action did not dump", "{what}");
                    let seen = &d[dumps_before];
                    ensure!(
                        *seen == before.facts,
                        "C04: an action observes a fact state different from what queries saw before the collapse",
                        "{what}: heads [{}]\n action {}\n query  {}",
                        shorts(&ids_of(&w, &f)),
                        fmt_facts(seen),
                        fmt_facts(&before.facts)
                    );
                }
                {
                    let ap = rep.audit.action_parents.borrow();
                    if ap.len() > parents_before {
                        let p = ap[parents_before];
                        let want = crate::policy::addr(&w.cmds[head].id, w.cmds[head].max_cut);
                        ensure!(
                            p == aranya_runtime::Prior::Single(want),
                            "C04: the action was not given the collapsed head as its parent",
                            "{what}: got {p:?} want {want:?}"
                        );
                    }
                }
                let evs: Vec<SinkEv> = rep.sink.log[sink_before..].to_vec();
                match (r, fail_at) {
                    (Ok(()), None) => {
                        stats.actions_ok += 1;
                        if f.len() > 1 {
                            stats.actions_multi_head += 1;
                        }
                        committed.extend(merges.iter().copied());
                        committed.extend(new_cmds.iter().copied());
                        epoch += 1;
                        let effs: Vec<Eff> = evs.iter().filter_map(|e| if let SinkEv::Consume(x) = e { Some(x.clone()) } else { None }).collect();
                        let want: Vec<Eff> = pubs.iter().map(|p| Eff { id: p.id, place: Place::Action }).collect();
                        ensure!(
                            effs == want,
                            "C04: collapsing the heads for an action emitted effects (or the action's own effects are wrong)",
                            "{what}: got {:?} want {:?}",
                            effs.iter().map(|e| (short(&e.id), e.place)).collect::<Vec<_>>(),
                            want.iter().map(|e| (short(&e.id), e.place)).collect::<Vec<_>>()
                        );
                        ensure!(evs.last() == Some(&SinkEv::Commit), "C07: effects of a successful action were not committed", "{what}: {evs:?}");
                        if f.len() > 1 {
                            let loc = rep.locate(&before.hello.0, before.hello.1).map_err(|e| Failure::new("get_location failed", e))?;
                            ensure!(loc.is_some(), "C04: the advertised hello head is not in the graph after the collapse", "{what}: {}", short(&before.hello.0));
                        }
                    }
                    (Err(ClientError::PolicyError(PolicyError::Rejected)), Some(_)) => {
                        stats.actions_failed += 1;
                        // the failed command and everything after it never existed
                        for i in &new_cmds {
                            if w.cmds[*i].rejected_at_origin {
                                rejected_ids.insert(w.cmds[*i].id);
                            }
                        }
                        ensure!(!evs.contains(&SinkEv::Commit), "C07: a failed action committed effects", "{what}: {evs:?}");
                        // the accepted publishes before the failure are not committed either; make them
                        // unreachable in the model by marking them as never delivered (they simply are not in `committed`)
                    }
                    (r, fa) => fail!(
                        "C07: action outcome differs from the model",
                        "{what}: got {} want {}",
                        r.map(|_| "Ok".to_string()).unwrap_or_else(|e| classify_err(&e)),
                        if fa.is_some() { "Rejected" } else { "Ok" }
                    ),
                }
            }
        }
        check_state(rep, &w, &committed, &what)?;
    }
    // C06: no effect of a rejected command was ever committed to the sink
    for e in rep.sink.committed_effects() {
        ensure!(
            !rejected_ids.contains(&e.id),
            "C06: effects of a rejected command were committed",
            "command {} place {:?}",
            short(&e.id),
            e.place
        );
    }
    Ok(())
}

fn action_kind(w: &World, parent: usize, b: &Body, opts: WorldOpts) -> Kind {
    if opts.allow_finalize && b.prio >= 200 {
        let ok = (0..w.len()).filter(|i| w.cmds[*i].kind == Kind::Finalize).all(|f| w.is_anc_or_eq(f, parent));
        if ok || opts.allow_parallel_finalize {
            return Kind::Finalize;
        }
    }
    Kind::Basic([0u32, 1, 7][b.prio as usize % 3])
}

fn action_payload(w: &World, parent: usize, b: &Body, opts: WorldOpts) -> Payload {
    use crate::world::{FOp, Guard, key_from};
    let st = w.state(parent);
    let guard = if b.guard == 0 {
        Guard::None
    } else {
        let k = key_from(b.guard);
        if st.contains_key(&k) { Guard::Present(k) } else { Guard::Absent(k) }
    };
    let ops = b
        .ops
        .iter()
        .map(|(kind, ksel, v)| match kind % 4 {
            0 | 1 => FOp::Insert(key_from(*ksel), vec![*v]),
            2 => FOp::Delete(key_from(*ksel)),
            _ => FOp::Seq,
        })
        .collect();
    Payload {
        guard,
        ops,
        poison: opts.allow_poison && b.poison,
    }
}

/// Invariants after every operation: committed set (C08), head set (C09), fact state (C03).
pub fn check_state<SP: StorageProvider>(rep: &mut Replica<SP>, w: &World, committed: &BTreeSet<usize>, what: &str) -> CheckResult {
    let ids = rep.committed_ids().map_err(|e| Failure::new("C11: committed graph walk failed", format!("{what}: {e}")))?;
    let want: BTreeSet<Id> = committed.iter().map(|i| w.cmds[*i].id).collect();
    if ids != want {
        let missing: Vec<Id> = want.difference(&ids).copied().collect();
        let extra: Vec<Id> = ids.difference(&want).copied().collect();
        if !missing.is_empty() {
            fail!("C08: committed commands disappeared from the graph", "{what}: missing [{}] extra [{}]", shorts(&missing), shorts(&extra));
        }
        fail!("C08: the committed graph holds commands that were never accepted and committed", "{what}: extra [{}]", shorts(&extra));
    }
    let got = rep.heads().map_err(|e| Failure::new("C09: cannot read heads", e))?;
    let mut sorted = got.clone();
    sorted.sort();
    sorted.dedup();
    ensure!(got == sorted, "C09: head set not sorted by id or has duplicates", "{what}");
    let wanth = crate::scenario::expected_heads(w, committed);
    ensure!(
        got == wanth,
        "C09: head set is not the frontier of the committed graph",
        "{what}: got [{}] want [{}]",
        shorts(&got.iter().map(|h| h.0).collect::<Vec<_>>()),
        shorts(&wanth.iter().map(|h| h.0).collect::<Vec<_>>())
    );
    let f = frontier_sorted(w, committed);
    let wantf: Facts = w.headset_state(&f).map_err(|_| Failure::new("HARNESS: committed head set has parallel finalize in the model", what))?;
    let gotf = rep.facts().map_err(|e| Failure::new("C03: fact cache unreadable", e))?;
    ensure!(
        gotf == wantf,
        "C03: committed fact state differs from the reference braid",
        "{what}: heads [{}]\n got  {}\n want {}",
        shorts(&ids_of(w, &f)),
        fmt_facts(&gotf),
        fmt_facts(&wantf)
    );
    Ok(())
}

pub fn run_case(c: &TxCase, opts: WorldOpts, info: &mut CaseInfo) -> Result<Stats, Failure> {
    let mut st = Stats {
        overlapping_commits: 0,
        concurrent_errors: 0,
        rejected: 0,
        after_reject_deliveries: 0,
        missing_parent: 0,
        parallel_finalize_errors: 0,
        multi_head_states: 0,
        actions_ok: 0,
        actions_multi_head: 0,
        actions_failed: 0,
        commits_ok: 0,
        stale_adds: 0,
    };
    if c.file {
        info.label("file_backend");
        let mut r = FileReplica::new_file();
        run_tx(&mut r, c, opts, &mut st)?;
    } else {
        let mut r = MemReplica::new_mem();
        run_tx(&mut r, c, opts, &mut st)?;
    }
    for (n, l) in [
        (st.overlapping_commits, "overlapping_commit"),
        (st.concurrent_errors, "concurrent_transaction_error"),
        (st.rejected, "rejected_at_origin"),
        (st.after_reject_deliveries, "delivery_after_reject"),
        (st.missing_parent, "missing_parent"),
        (st.parallel_finalize_errors, "parallel_finalize"),
        (st.multi_head_states, "multi_head_commit"),
        (st.actions_ok, "action_ok"),
        (st.actions_multi_head, "action_on_multi_head"),
        (st.actions_failed, "action_failed"),
        (st.stale_adds, "add_on_overtaken_trx"),
    ] {
        if n > 0 {
            info.label(l);
        }
    }
    Ok(st)
}
