//! Abstract command DAGs ("worlds") and the storage-independent reference model
//! (DESIGN.md section 1.1 / 1.3).  Nothing in this file touches aranya-runtime.

use std::collections::{BTreeMap, BTreeSet};

use serde::{Deserialize, Serialize};

pub type Id = [u8; 32];

/// Fact key: (name index, key components).
#[derive(Clone, Debug, PartialEq, Eq, PartialOrd, Ord, Serialize, Deserialize, Hash)]
pub struct FKey {
    pub name: u8,
    pub keys: Vec<Vec<u8>>,
}

pub const NAMES: [&str; 3] = ["a", "b", "seq"];

impl FKey {
    pub fn name_str(&self) -> &'static str {
        NAMES[self.name as usize % NAMES.len()]
    }
}

pub type Facts = BTreeMap<FKey, Vec<u8>>;

#[derive(Clone, Debug, PartialEq, Eq, Serialize, Deserialize)]
pub enum Guard {
    None,
    Absent(FKey),
    Present(FKey),
}

#[derive(Clone, Debug, PartialEq, Eq, Serialize, Deserialize)]
pub enum FOp {
    Insert(FKey, Vec<u8>),
    Delete(FKey),
    /// Order-sensitive: seq[] := mix(seq[], command id).
    Seq,
}

#[derive(Clone, Debug, PartialEq, Eq, Serialize, Deserialize)]
pub struct Payload {
    pub guard: Guard,
    pub ops: Vec<FOp>,
    /// Writes its ops and then rejects (only ever at origin; never part of a committed graph).
    pub poison: bool,
}

impl Payload {
    pub fn empty() -> Self {
        Payload {
            guard: Guard::None,
            ops: Vec::new(),
            poison: false,
        }
    }
}

#[derive(Clone, Copy, Debug, PartialEq, Eq, PartialOrd, Ord, Serialize, Deserialize)]
pub enum Kind {
    // order = runtime Priority order: Merge < Basic(n) < Finalize < Init
    Merge,
    Basic(u32),
    Finalize,
    Init,
}

#[derive(Clone, Debug, Serialize, Deserialize)]
pub struct Cmd {
    pub id: Id,
    pub kind: Kind,
    pub parents: Vec<usize>,
    pub payload: Payload,
    pub max_cut: u64,
    /// Poison commands and descendants of poison commands / bad merges are not "honest".
    pub rejected_at_origin: bool,
    /// A merge whose braid region contains two causally unordered finalize commands.
    pub bad_merge: bool,
}

pub fn seq_key() -> FKey {
    FKey {
        name: 2,
        keys: Vec::new(),
    }
}

pub fn mix64(a: u64, b: u64) -> u64 {
    let mut z = a ^ b.wrapping_mul(0x9E37_79B9_7F4A_7C15).wrapping_add(0x632B_E59B_D9B4_E019);
    z = (z ^ (z >> 30)).wrapping_mul(0xBF58_476D_1CE4_E5B9);
    z = (z ^ (z >> 27)).wrapping_mul(0x94D0_49BB_1331_11EB);
    z ^ (z >> 31)
}

pub fn id_u64(id: &Id) -> u64 {
    u64::from_le_bytes(id[8..16].try_into().unwrap()) ^ u64::from_le_bytes(id[0..8].try_into().unwrap())
}

/// Deterministic merge id from the two parent ids (sorted).
pub fn merge_id(a: &Id, b: &Id) -> Id {
    let (l, r) = if a <= b { (a, b) } else { (b, a) };
    let mut out = [0u8; 32];
    let mut h = 0x6d65_7267_655f_6964u64;
    for chunk in l.chunks(8).chain(r.chunks(8)) {
        h = mix64(h, u64::from_le_bytes(chunk.try_into().unwrap()));
    }
    for (i, c) in out.chunks_mut(8).enumerate() {
        h = mix64(h, i as u64 + 1);
        c.copy_from_slice(&h.to_le_bytes());
    }
    out
}

/// The rule every command's policy evaluation follows (shared by the model and by AuditPolicy,
/// which runs it against the runtime's fact perspective through the `FactView` trait).
pub trait FactView {
    fn get(&self, k: &FKey) -> Option<Vec<u8>>;
    fn put(&mut self, k: FKey, v: Vec<u8>);
    fn del(&mut self, k: FKey);
}

impl FactView for Facts {
    fn get(&self, k: &FKey) -> Option<Vec<u8>> {
        BTreeMap::get(self, k).cloned()
    }
    fn put(&mut self, k: FKey, v: Vec<u8>) {
        self.insert(k, v);
    }
    fn del(&mut self, k: FKey) {
        self.remove(&k);
    }
}

#[derive(Clone, Copy, Debug, PartialEq, Eq)]
pub enum Verdict {
    Accepted,
    /// Guard failed: nothing written.
    Rejected,
    /// Poison: ops written, then rejected.
    WroteThenRejected,
}

pub fn eval_rule(id: &Id, p: &Payload, f: &mut impl FactView) -> Verdict {
    match &p.guard {
        Guard::None => {}
        Guard::Absent(k) => {
            if f.get(k).is_some() {
                return Verdict::Rejected;
            }
        }
        Guard::Present(k) => {
            if f.get(k).is_none() {
                return Verdict::Rejected;
            }
        }
    }
    for op in &p.ops {
        match op {
            FOp::Insert(k, v) => f.put(k.clone(), v.clone()),
            FOp::Delete(k) => f.del(k.clone()),
            FOp::Seq => {
                let k = seq_key();
                let old = f.get(&k).unwrap_or_default();
                let (h, n) = if old.len() == 16 {
                    (
                        u64::from_le_bytes(old[0..8].try_into().unwrap()),
                        u64::from_le_bytes(old[8..16].try_into().unwrap()),
                    )
                } else {
                    (0, 0)
                };
                let mut v = Vec::with_capacity(16);
                v.extend_from_slice(&mix64(h, id_u64(id)).to_le_bytes());
                v.extend_from_slice(&(n + 1).to_le_bytes());
                f.put(k, v);
            }
        }
    }
    if p.poison {
        Verdict::WroteThenRejected
    } else {
        Verdict::Accepted
    }
}

// ---------------------------------------------------------------------------------------------

#[derive(Clone, Debug, Default)]
pub struct BitSet(Vec<u64>);

impl BitSet {
    pub fn with_len(n: usize) -> Self {
        BitSet(vec![0; n.div_ceil(64)])
    }
    pub fn set(&mut self, i: usize) {
        if i / 64 >= self.0.len() {
            self.0.resize(i / 64 + 1, 0);
        }
        self.0[i / 64] |= 1 << (i % 64);
    }
    pub fn get(&self, i: usize) -> bool {
        self.0.get(i / 64).is_some_and(|w| w & (1 << (i % 64)) != 0)
    }
    pub fn or_with(&mut self, o: &BitSet) {
        if o.0.len() > self.0.len() {
            self.0.resize(o.0.len(), 0);
        }
        for (a, b) in self.0.iter_mut().zip(o.0.iter()) {
            *a |= *b;
        }
    }
    pub fn iter(&self) -> impl Iterator<Item = usize> + '_ {
        self.0.iter().enumerate().flat_map(|(wi, w)| {
            let w = *w;
            (0..64).filter(move |b| w & (1u64 << b) != 0).map(move |b| wi * 64 + b)
        })
    }
    pub fn count(&self) -> usize {
        self.0.iter().map(|w| w.count_ones() as usize).sum()
    }
}

#[derive(Debug, Clone, PartialEq, Eq)]
pub struct ParallelFinalize;

#[derive(Clone, Debug)]
pub struct Braid {
    /// The single remaining strand: its stored state is the starting point.
    pub base: usize,
    /// Application order (after `base`), merges omitted.
    pub order: Vec<usize>,
    /// Number of non-merge commands emitted by the braid walk (= order.len()).
    pub region_size: usize,
}

/// A world: commands in creation order (parents always have smaller indices).
#[derive(Clone, Debug, Default)]
pub struct World {
    pub cmds: Vec<Cmd>,
    /// ancestors-or-self
    pub anc: Vec<BitSet>,
    pub children: Vec<Vec<usize>>,
    /// immediate dominator on the path to init
    pub idom: Vec<Option<usize>>,
    /// state after each command (accepted-at-origin commands only)
    pub states: Vec<Option<Facts>>,
    pub by_id: BTreeMap<Id, usize>,
}

impl World {
    pub fn len(&self) -> usize {
        self.cmds.len()
    }

    pub fn is_anc_or_eq(&self, a: usize, b: usize) -> bool {
        self.anc[b].get(a)
    }

    pub fn is_proper_anc(&self, a: usize, b: usize) -> bool {
        a != b && self.anc[b].get(a)
    }

    pub fn comparable(&self, a: usize, b: usize) -> bool {
        self.is_anc_or_eq(a, b) || self.is_anc_or_eq(b, a)
    }

    /// Walk two dominator chains until they meet (greatest common chain element).
    pub fn lcd_pair(&self, mut a: usize, mut b: usize) -> usize {
        while a != b {
            // step the side with the larger max cut; on ties step `b` (any side works: chains are
            // totally ordered and strictly decreasing in max cut)
            if self.cmds[a].max_cut > self.cmds[b].max_cut {
                a = self.idom[a].expect("dominator chain reaches init");
            } else {
                b = self.idom[b].expect("dominator chain reaches init");
            }
        }
        a
    }

    pub fn lcd(&self, heads: &[usize]) -> usize {
        let mut it = heads.iter().copied();
        let first = it.next().expect("non-empty");
        it.fold(first, |l, h| self.lcd_pair(l, h))
    }

    /// Commands that are ancestors-or-self of `heads` but not of `lcd(heads)`.
    pub fn region(&self, heads: &[usize]) -> BitSet {
        let l = self.lcd(heads);
        let mut r = BitSet::with_len(self.len());
        for h in heads {
            r.or_with(&self.anc[*h]);
        }
        let mut out = BitSet::with_len(self.len());
        for i in r.iter() {
            if !self.anc[l].get(i) {
                out.set(i);
            }
        }
        out
    }

    /// Property-level predicate of C05: the region holds two finalize commands, neither an
    /// ancestor of the other.
    pub fn region_has_parallel_finalize(&self, heads: &[usize]) -> bool {
        let r = self.region(heads);
        let fins: Vec<usize> = r.iter().filter(|i| self.cmds[*i].kind == Kind::Finalize).collect();
        for (x, a) in fins.iter().enumerate() {
            for b in &fins[x + 1..] {
                if !self.comparable(*a, *b) {
                    return true;
                }
            }
        }
        false
    }

    /// Reference braid (DESIGN 1.3): repeatedly take the frontier element with the smallest
    /// (priority, id); stop as soon as a single frontier element remains.
    pub fn braid(&self, heads: &[usize]) -> Result<Braid, ParallelFinalize> {
        assert!(heads.len() >= 2, "braid needs >= 2 heads");
        let region = self.region(heads);
        let mut left: BTreeMap<usize, usize> = BTreeMap::new();
        for i in region.iter() {
            let n = self.children[i].iter().filter(|c| region.get(**c)).count();
            left.insert(i, n);
        }
        let mut frontier: BTreeSet<(Kind, Id, usize)> = BTreeSet::new();
        let mut has_fin = false;
        let mut push = |frontier: &mut BTreeSet<(Kind, Id, usize)>, has_fin: &mut bool, i: usize| {
            let c = &self.cmds[i];
            if c.kind == Kind::Finalize {
                if *has_fin {
                    return Err(ParallelFinalize);
                }
                *has_fin = true;
            }
            frontier.insert((c.kind, c.id, i));
            Ok(())
        };
        for h in heads {
            push(&mut frontier, &mut has_fin, *h)?;
        }
        let mut emitted = Vec::new();
        let base;
        loop {
            let first = *frontier.iter().next().expect("frontier never empties before a lone strand");
            frontier.remove(&first);
            let i = first.2;
            if self.cmds[i].kind == Kind::Finalize {
                has_fin = false;
            }
            if self.cmds[i].kind != Kind::Merge {
                emitted.push(i);
            }
            for p in &self.cmds[i].parents {
                if !region.get(*p) {
                    continue;
                }
                let n = left.get_mut(p).expect("in region");
                *n -= 1;
                if *n == 0 {
                    push(&mut frontier, &mut has_fin, *p)?;
                }
            }
            if frontier.len() == 1 {
                base = frontier.iter().next().unwrap().2;
                break;
            }
            assert!(!frontier.is_empty(), "model: frontier emptied without a lone strand");
        }
        emitted.reverse();
        Ok(Braid {
            base,
            region_size: emitted.len(),
            order: emitted,
        })
    }

    /// Fact state after braiding `heads` (>= 2) — what a multi-head commit must cache.
    pub fn braid_state(&self, heads: &[usize]) -> Result<Facts, ParallelFinalize> {
        let b = self.braid(heads)?;
        let mut f = self.state(b.base).clone();
        for i in &b.order {
            // a command whose guard fails in the braid context is skipped
            let _ = eval_rule(&self.cmds[*i].id, &self.cmds[*i].payload, &mut f);
        }
        Ok(f)
    }

    pub fn state(&self, i: usize) -> &Facts {
        self.states[i].as_ref().expect("state of an honest command")
    }

    /// State for a head set: single head = its state; otherwise the braid.
    pub fn headset_state(&self, heads: &[usize]) -> Result<Facts, ParallelFinalize> {
        if heads.len() == 1 {
            Ok(self.state(heads[0]).clone())
        } else {
            self.braid_state(heads)
        }
    }

    /// Frontier (maximal elements) of a downward-closed set.
    pub fn frontier(&self, set: &BTreeSet<usize>) -> Vec<usize> {
        set.iter()
            .copied()
            .filter(|i| !self.children[*i].iter().any(|c| set.contains(c)))
            .collect()
    }

    pub fn ancestors_or_self(&self, i: usize) -> BTreeSet<usize> {
        self.anc[i].iter().collect()
    }

    /// Adds a command; computes max cut, ancestry, dominator and state. Returns its index.
    pub fn push(&mut self, id: Id, kind: Kind, parents: Vec<usize>, payload: Payload) -> usize {
        let i = self.cmds.len();
        let max_cut = parents.iter().map(|p| self.cmds[*p].max_cut + 1).max().unwrap_or(0);
        let mut anc = BitSet::with_len(i + 1);
        anc.set(i);
        for p in &parents {
            anc.or_with(&self.anc[*p]);
        }
        let idom = match parents.len() {
            0 => None,
            1 => Some(parents[0]),
            _ => Some(self.lcd_pair(parents[0], parents[1])),
        };
        let parent_bad = parents.iter().any(|p| self.cmds[*p].rejected_at_origin || self.cmds[*p].bad_merge);
        self.anc.push(anc);
        self.children.push(Vec::new());
        for p in &parents {
            self.children[*p].push(i);
        }
        self.idom.push(idom);
        self.by_id.insert(id, i);
        self.cmds.push(Cmd {
            id,
            kind,
            parents: parents.clone(),
            payload,
            max_cut,
            rejected_at_origin: parent_bad,
            bad_merge: false,
        });
        self.states.push(None);
        if parent_bad {
            return i;
        }
        // state
        match parents.len() {
            0 => {
                self.states[i] = Some(Facts::new());
            }
            1 => {
                let mut f = self.state(parents[0]).clone();
                let c = &self.cmds[i];
                match eval_rule(&c.id, &c.payload, &mut f) {
                    Verdict::Accepted => self.states[i] = Some(f),
                    _ => self.cmds[i].rejected_at_origin = true,
                }
            }
            _ => {
                if self.region_has_parallel_finalize(&parents) {
                    self.cmds[i].bad_merge = true;
                    debug_assert!(self.braid(&parents).is_err());
                } else {
                    match self.braid_state(&parents) {
                        Ok(f) => self.states[i] = Some(f),
                        Err(_) => panic!("HARNESS model inconsistency: braid failed without parallel finalize in region"),
                    }
                }
            }
        }
        i
    }

    pub fn honest(&self, i: usize) -> bool {
        !self.cmds[i].rejected_at_origin && !self.cmds[i].bad_merge
    }

    pub fn tips(&self) -> Vec<usize> {
        (0..self.len()).filter(|i| self.children[*i].is_empty()).collect()
    }
}

// ---------------------------------------------------------------------------------------------
// Recipes: the generated, serializable description a world is built from.

#[derive(Clone, Debug, Serialize, Deserialize)]
pub struct Body {
    /// priority alphabet index (3 values so ties are the norm); >= 200 => Finalize when allowed
    pub prio: u8,
    /// high bytes of the id: makes id order a generated dimension
    pub id_hi: u16,
    /// 0 = no guard, otherwise selects a key; the guard kind is chosen so it passes at origin
    pub guard: u8,
    pub ops: Vec<(u8, u8, u8)>,
    pub poison: bool,
}

#[derive(Clone, Debug, Serialize, Deserialize)]
pub enum Step {
    /// child of a tip
    Extend(u16, Body),
    /// child of any honest command
    Branch(u16, Body),
    /// merge of two incomparable honest tips (or any two incomparable honest commands)
    Merge(u16, u16, bool),
    /// a run of `n` plain commands on one tip (cheap way to get long segments)
    Run(u16, u8, Body),
    /// a ladder on one tip: two strands, one of which merges with the other after every step, so
    /// that `n` commands of the plain strand are reachable along two paths (convergence points)
    Ladder(u16, u16, Body),
    /// `n` sibling children of one tip (many heads)
    Fan(u16, u16, Body),
    /// a comb on one tip: a trunk of `n` commands, each with one leaf child (n + 1 heads)
    Comb(u16, u16, Body),
}

#[derive(Clone, Copy, Debug, Default)]
pub struct WorldOpts {
    pub allow_poison: bool,
    pub allow_parallel_finalize: bool,
    pub allow_finalize: bool,
}

const PRIOS: [u32; 3] = [0, 1, 7];

pub fn key_from(sel: u8) -> FKey {
    // 2 names x 6 key shapes incl. empty component, prefix-related components
    let name = sel & 1;
    let keys: Vec<Vec<u8>> = match (sel >> 1) % 6 {
        0 => vec![],
        1 => vec![vec![]],
        2 => vec![vec![0]],
        3 => vec![vec![0], vec![1]],
        4 => vec![vec![0, 0]],
        _ => vec![vec![1]],
    };
    FKey { name, keys }
}

fn make_id(hi: u16, index: usize) -> Id {
    let mut id = [0u8; 32];
    id[0..2].copy_from_slice(&hi.to_be_bytes());
    id[2..10].copy_from_slice(&(index as u64).to_be_bytes());
    let mut h = mix64(u64::from(hi), index as u64);
    for c in id[10..].chunks_mut(8) {
        h = mix64(h, 0x1234_5678);
        let b = h.to_le_bytes();
        c.copy_from_slice(&b[..c.len()]);
    }
    id
}

pub fn init_id() -> Id {
    make_id(0x4949, 0)
}

impl World {
    pub fn fresh_id(&self, hi: u16) -> Id {
        make_id(hi, self.len())
    }

    pub fn with_init() -> Self {
        let mut w = World::default();
        w.push(init_id(), Kind::Init, vec![], Payload::empty());
        w
    }

    fn body_payload(&self, parent: usize, b: &Body, opts: WorldOpts) -> Payload {
        let st = self.state(parent);
        let guard = if b.guard == 0 {
            Guard::None
        } else {
            let k = key_from(b.guard);
            if st.contains_key(&k) { Guard::Present(k) } else { Guard::Absent(k) }
        };
        let mut ops = Vec::new();
        for (kind, ksel, v) in &b.ops {
            match kind % 4 {
                0 | 1 => ops.push(FOp::Insert(key_from(*ksel), vec![*v])),
                2 => ops.push(FOp::Delete(key_from(*ksel))),
                _ => ops.push(FOp::Seq),
            }
        }
        Payload {
            guard,
            ops,
            poison: opts.allow_poison && b.poison,
        }
    }

    fn body_kind(&self, parent: usize, b: &Body, opts: WorldOpts) -> Kind {
        if opts.allow_finalize && b.prio >= 200 {
            if opts.allow_parallel_finalize {
                return Kind::Finalize;
            }
            // only when every existing finalize is an ancestor of the parent
            let ok = (0..self.len())
                .filter(|i| self.cmds[*i].kind == Kind::Finalize)
                .all(|f| self.is_anc_or_eq(f, parent));
            if ok {
                return Kind::Finalize;
            }
        }
        Kind::Basic(PRIOS[b.prio as usize % PRIOS.len()])
    }

    pub fn apply_step(&mut self, s: &Step, opts: WorldOpts) {
        let honest: Vec<usize> = (0..self.len()).filter(|i| self.honest(*i)).collect();
        let tips: Vec<usize> = honest
            .iter()
            .copied()
            .filter(|i| !self.children[*i].iter().any(|c| self.honest(*c)))
            .collect();
        match s {
            Step::Extend(at, b) | Step::Branch(at, b) => {
                let pool = if matches!(s, Step::Extend(..)) { &tips } else { &honest };
                let parent = pool[vcommon::idx(*at, pool.len())];
                let kind = self.body_kind(parent, b, opts);
                let payload = self.body_payload(parent, b, opts);
                let id = make_id(b.id_hi, self.len());
                self.push(id, kind, vec![parent], payload);
            }
            Step::Run(at, n, b) => {
                let mut parent = tips[vcommon::idx(*at, tips.len())];
                for k in 0..(*n as usize) {
                    let mut bb = b.clone();
                    bb.id_hi = b.id_hi.wrapping_add((k as u16).wrapping_mul(7919));
                    bb.prio = if b.prio >= 200 { 0 } else { b.prio.wrapping_add(k as u8) };
                    bb.poison = false;
                    let payload = self.body_payload(parent, &bb, opts);
                    let kind = self.body_kind(parent, &bb, opts);
                    let id = make_id(bb.id_hi, self.len());
                    parent = self.push(id, kind, vec![parent], payload);
                }
            }
            Step::Ladder(at, n, b) => {
                let base = tips[vcommon::idx(*at, tips.len())];
                let mut bb = b.clone();
                bb.poison = false;
                if bb.prio >= 200 {
                    bb.prio = 0;
                }
                let mut step = |w: &mut World, parent: usize, k: usize| -> usize {
                    let mut x = bb.clone();
                    x.id_hi = bb.id_hi.wrapping_add((k as u16).wrapping_mul(40503));
                    x.prio = bb.prio.wrapping_add(k as u8) % 3;
                    let payload = w.body_payload(parent, &x, opts);
                    let id = make_id(x.id_hi, w.len());
                    w.push(id, Kind::Basic(PRIOS[x.prio as usize % PRIOS.len()]), vec![parent], payload)
                };
                let mut a = step(self, base, 0);
                let mut plain = step(self, base, 1);
                for k in 0..(*n as usize) {
                    let id = merge_id(&self.cmds[a].id, &self.cmds[plain].id);
                    if self.by_id.contains_key(&id) {
                        break;
                    }
                    let (l, r) = if self.cmds[a].id < self.cmds[plain].id { (a, plain) } else { (plain, a) };
                    let m = self.push(id, Kind::Merge, vec![l, r], Payload::empty());
                    a = step(self, m, 2 * k + 2);
                    plain = step(self, plain, 2 * k + 3);
                }
            }
            Step::Fan(at, n, b) | Step::Comb(at, n, b) => {
                let comb = matches!(s, Step::Comb(..));
                let mut parent = tips[vcommon::idx(*at, tips.len())];
                let mut bb = b.clone();
                bb.poison = false;
                if bb.prio >= 200 {
                    bb.prio = 0;
                }
                for k in 0..(*n as usize) {
                    for leaf in [false, true] {
                        if !comb && !leaf {
                            continue;
                        }
                        let mut x = bb.clone();
                        // generated id order and priorities vary along the structure
                        x.id_hi = bb.id_hi.wrapping_add((2 * k as u16 + u16::from(leaf)).wrapping_mul(24593)) ^ (u16::from(bb.guard) << 7);
                        x.prio = bb.prio.wrapping_add((k as u8).wrapping_mul(5).wrapping_add(u8::from(leaf) * 2)) % 3;
                        let payload = self.body_payload(parent, &x, opts);
                        let id = make_id(x.id_hi, self.len());
                        let c = self.push(id, Kind::Basic(PRIOS[x.prio as usize % PRIOS.len()]), vec![parent], payload);
                        if comb && !leaf {
                            parent = c;
                        }
                    }
                }
            }
            Step::Merge(a, b, any) => {
                let pool = if *any { &honest } else { &tips };
                if pool.len() < 2 {
                    return;
                }
                let x = pool[vcommon::idx(*a, pool.len())];
                // first incomparable partner at or after the selected position
                let start = vcommon::idx(*b, pool.len());
                let Some(y) = (0..pool.len())
                    .map(|k| pool[(start + k) % pool.len()])
                    .find(|y| !self.comparable(x, *y))
                else {
                    return;
                };
                let id = merge_id(&self.cmds[x].id, &self.cmds[y].id);
                if self.by_id.contains_key(&id) {
                    return;
                }
                // parents ordered by id, as MergeIds does
                let (l, r) = if self.cmds[x].id < self.cmds[y].id { (x, y) } else { (y, x) };
                if !opts.allow_parallel_finalize && self.region_has_parallel_finalize(&[l, r]) {
                    return;
                }
                self.push(id, Kind::Merge, vec![l, r], Payload::empty());
            }
        }
    }

    pub fn from_recipe(steps: &[Step], opts: WorldOpts) -> World {
        let mut w = World::with_init();
        for s in steps {
            w.apply_step(s, opts);
        }
        w
    }
}

pub mod strategies {
    use proptest::prelude::*;

    use super::{Body, Step};

    pub fn body(fin_weight: u32) -> impl Strategy<Value = Body> {
        (
            prop_oneof![30 => 0u8..3, fin_weight => Just(200u8)],
            any::<u16>(),
            prop_oneof![2 => Just(0u8), 3 => 1u8..24],
            prop::collection::vec((0u8..4, 0u8..24, 0u8..3), 0..3),
            prop::bool::weighted(0.15),
        )
            .prop_map(|(prio, id_hi, guard, ops, poison)| Body {
                prio,
                id_hi,
                guard,
                ops,
                poison,
            })
    }

    pub fn step(fin_weight: u32, run_weight: u32) -> impl Strategy<Value = Step> {
        prop_oneof![
            5 => (any::<u16>(), body(fin_weight)).prop_map(|(a, b)| Step::Extend(a, b)),
            3 => (any::<u16>(), body(fin_weight)).prop_map(|(a, b)| Step::Branch(a, b)),
            3 => (any::<u16>(), any::<u16>(), prop::bool::weighted(0.25)).prop_map(|(a, b, c)| Step::Merge(a, b, c)),
            run_weight => (any::<u16>(), 2u8..40, body(0)).prop_map(|(a, n, b)| Step::Run(a, n, b)),
            (run_weight / 3) => (any::<u16>(), 1u16..30, body(0)).prop_map(|(a, n, b)| Step::Ladder(a, n, b)),
            (run_weight / 3) => (any::<u16>(), 2u16..16, body(0)).prop_map(|(a, n, b)| Step::Fan(a, n, b)),
            (run_weight / 4) => (any::<u16>(), 2u16..20, body(0)).prop_map(|(a, n, b)| Step::Comb(a, n, b)),
        ]
    }

    pub fn recipe(max_steps: usize, fin_weight: u32, run_weight: u32) -> impl Strategy<Value = Vec<Step>> {
        prop::collection::vec(step(fin_weight, run_weight), 1..max_steps)
    }

    /// Several long ladders and runs: thousands of convergence points, i.e. many spilled convergence-map
    /// blocks whose max-cut ranges overlap.
    pub fn ladders_recipe() -> impl Strategy<Value = Vec<Step>> {
        prop::collection::vec(
            prop_oneof![
                4 => (any::<u16>(), 120u16..420, body(0)).prop_map(|(a, n, b)| Step::Ladder(a, n, b)),
                2 => (any::<u16>(), 300u16..1100, body(0)).prop_map(|(a, n, b)| Step::Comb(a, n, b)),
                1 => (any::<u16>(), 11u16..40, body(0)).prop_map(|(a, n, b)| Step::Fan(a, n, b)),
                2 => (any::<u16>(), body(0)).prop_map(|(a, b)| Step::Branch(a, b)),
                1 => (any::<u16>(), 2u8..40, body(0)).prop_map(|(a, n, b)| Step::Run(a, n, b)),
                1 => (any::<u16>(), any::<u16>(), prop::bool::weighted(0.25)).prop_map(|(a, b, c)| Step::Merge(a, b, c)),
            ],
            3..9,
        )
    }

    /// A ladder long enough to overflow the 256-entry in-memory blocks of the braid and of the
    /// convergence map, plus a few ordinary steps before and after it.
    pub fn spill_recipe() -> impl Strategy<Value = Vec<Step>> {
        (
            prop::collection::vec(step(0, 1), 0..4),
            (any::<u16>(), 258u16..300, body(0)),
            prop::collection::vec(step(0, 1), 0..6),
        )
            .prop_map(|(mut pre, (a, n, b), post)| {
                pre.push(Step::Ladder(a, n, b));
                pre.extend(post);
                pre
            })
    }
}
