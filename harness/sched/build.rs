//! Generates the instrumented source copies the schedule-controlled engine runs (DESIGN.md §0.4).
//!
//! `${VERIF_REPO:-<path of aranya-fast-channels in ../Cargo.toml>}/crates/aranya-fast-channels/src`
//! and `…/aranya-policy-text/src/repr.rs` are copied into `$OUT_DIR/{afc,text}` with a FIXED list
//! of textual substitutions.  Every substitution states how many times it must match; a mismatch
//! aborts the build with a message (bin/check then reports "harness build failed" = exit 2,
//! inconclusive — never a violation).  The copies are compiled as module trees `crate::afc_inst`
//! and `crate::text_inst` of the vh-sched binary, therefore `crate::` paths of the copy are
//! relocated to `crate::afc_inst::`.
use std::{
    env, fs,
    path::{Path, PathBuf},
};

const VS: &str = "@VSCHED@"; // placeholder, becomes `crate::vsched` after the `crate::` relocation

struct Sub {
    file: &'static str,
    from: &'static str,
    to: String,
    count: usize,
    why: &'static str,
}

fn s(file: &'static str, from: &'static str, to: &str, count: usize, why: &'static str) -> Sub {
    Sub {
        file,
        from,
        to: to.replace("VS::", &format!("{VS}::")),
        count,
        why,
    }
}

fn die(msg: String) -> ! {
    eprintln!("\nvh-sched build.rs: INSTRUMENTATION NEEDS UPDATE: {msg}\n");
    std::process::exit(1);
}

fn repo_root(manifest_dir: &Path) -> PathBuf {
    if let Ok(v) = env::var("VERIF_REPO") {
        if !v.is_empty() {
            return PathBuf::from(v);
        }
    }
    // the real crates are path dependencies declared in the workspace manifest: use the same tree
    if let Ok(t) = fs::read_to_string(manifest_dir.join("../Cargo.toml")) {
        for line in t.lines() {
            if line.trim_start().starts_with("aranya-fast-channels") {
                if let Some(i) = line.find("path = \"") {
                    let rest = &line[i + 8..];
                    if let Some(j) = rest.find('"') {
                        let p = Path::new(&rest[..j]);
                        if let Some(root) = p.parent().and_then(|p| p.parent()) {
                            return root.to_path_buf();
                        }
                    }
                }
            }
        }
    }
    PathBuf::from("/repo")
}

fn walk(dir: &Path, rel: &Path, out: &mut Vec<PathBuf>) {
    let mut ents: Vec<_> = fs::read_dir(dir)
        .unwrap_or_else(|e| die(format!("cannot read {}: {e}", dir.display())))
        .filter_map(|e| e.ok())
        .collect();
    ents.sort_by_key(|e| e.file_name());
    for e in ents {
        let p = e.path();
        let r = rel.join(e.file_name());
        if p.is_dir() {
            walk(&p, &r, out);
        } else if p.extension().is_some_and(|x| x == "rs") {
            out.push(r);
        }
    }
}

fn apply(text: &mut String, file: &str, subs: &[Sub], log: &mut String) {
    for sub in subs.iter().filter(|s| s.file == file) {
        let n = text.matches(sub.from).count();
        if n != sub.count {
            die(format!(
                "{file}: expected {} occurrence(s) of `{}` ({}), found {n}",
                sub.count, sub.from, sub.why
            ));
        }
        *text = text.replace(sub.from, &sub.to);
        log.push_str(&format!("{file}: {}x `{}` ({})\n", sub.count, sub.from.trim(), sub.why));
    }
}

fn relocate(text: &str, module: &str) -> String {
    text.replace("crate::", &format!("crate::{module}::")).replace(VS, "crate::vsched")
}

fn main() {
    let manifest_dir = PathBuf::from(env::var("CARGO_MANIFEST_DIR").unwrap());
    let out = PathBuf::from(env::var("OUT_DIR").unwrap());
    let repo = repo_root(&manifest_dir);
    let afc_src = repo.join("crates/aranya-fast-channels/src");
    let text_src = repo.join("crates/aranya-policy-text/src");
    println!("cargo:rerun-if-env-changed=VERIF_REPO");
    println!("cargo:rerun-if-changed=build.rs");
    println!("cargo:rerun-if-changed=../Cargo.toml");
    println!("cargo:rerun-if-changed={}", afc_src.display());
    println!("cargo:rerun-if-changed={}", text_src.join("repr.rs").display());

    let mut log = format!("source tree: {}\n", repo.display());

    // ------------------------------------------------------------------ aranya-fast-channels
    let atom = "every atomic access becomes a scheduling point";
    let mut subs = vec![
        // --- mutex.rs (futex variant)
        s("mutex.rs", "    sync::atomic::{AtomicU32, Ordering},\n", "", 1, atom),
        s(
            "mutex.rs",
            "use crate::util::const_assert;\n",
            "use crate::util::const_assert;\nuse VS::atomic::{AtomicU32, Ordering};\n",
            1,
            atom,
        ),
        s(
            "mutex.rs",
            "    use core::{ptr, sync::atomic::AtomicU32};\n",
            "    use core::ptr;\n    use VS::atomic::AtomicU32;\n",
            1,
            atom,
        ),
        s(
            "mutex.rs",
            "use libc::{FUTEX_WAIT, FUTEX_WAKE, SYS_futex, c_int, syscall, timespec};",
            "use libc::{FUTEX_WAIT, FUTEX_WAKE, SYS_futex, c_int, timespec};\n    use VS::futex::syscall;",
            1,
            "SYS_futex goes to the futex model",
        ),
        s(
            "mutex.rs",
            "unsafe { syscall(SYS_futex, uaddr, futex_op, val, timeout, uaddr2, val3) }",
            "unsafe { syscall(SYS_futex, uaddr, futex_op, val, timeout, uaddr2, val3) }",
            1,
            "the futex call site (kept verbatim, resolved to the model by the import above)",
        ),
        s("mutex.rs", "unsafe { libc::sched_yield() }", "unsafe { VS::sched_yield() }", 1, "yield to the scheduler"),
        s("mutex.rs", "core::hint::spin_loop();", "VS::spin_loop();", 1, "yield to the scheduler"),
        s(
            "mutex.rs",
            "pub(crate) type StdMutex<T> = std::sync::Mutex<T>;",
            "pub(crate) type StdMutex<T> = VS::sync::Mutex<T>;",
            1,
            "std::sync::Mutex of the memory state goes to shuttle",
        ),
        // --- memory/lender.rs
        s("memory/lender.rs", "        sync::atomic::{AtomicBool, Ordering},\n", "", 1, atom),
        s(
            "memory/lender.rs",
            "    use alloc::boxed::Box;\n",
            "    use alloc::boxed::Box;\n    use VS::atomic::{AtomicBool, Ordering};\n",
            1,
            atom,
        ),
        // --- memory.rs: visibility only, so that the harness can name Lender/Loan
        s("memory.rs", "\nmod lender;\n", "\npub(crate) mod lender;\n", 1, "visibility only"),
        // --- shm
        s(
            "shm/read.rs",
            "use core::{fmt::Debug, sync::atomic::Ordering};",
            "use core::fmt::Debug;\nuse VS::atomic::Ordering;",
            1,
            atom,
        ),
        s(
            "shm/write.rs",
            "use core::{cell::Cell, marker::PhantomData, sync::atomic::Ordering};",
            "use core::{cell::Cell, marker::PhantomData};\nuse VS::atomic::Ordering;",
            1,
            atom,
        ),
        s("shm/posix.rs", "libc::shm_open(", "VS::shm::shm_open(", 1, "POSIX shm object modelled in process memory (vsched::shm)"),
        s("shm/posix.rs", "libc::shm_unlink(", "VS::shm::shm_unlink(", 1, "POSIX shm object modelled in process memory (vsched::shm)"),
        s("shm/posix.rs", "libc::mmap(", "VS::shm::mmap(", 1, "POSIX shm object modelled in process memory (vsched::shm)"),
        s("shm/posix.rs", "libc::munmap(", "VS::shm::munmap(", 1, "POSIX shm object modelled in process memory (vsched::shm)"),
        s("shm/posix.rs", "libc::close(", "VS::shm::close(", 1, "POSIX shm object modelled in process memory (vsched::shm)"),
        s("shm/posix.rs", "libc::ftruncate(", "VS::shm::ftruncate(", 1, "POSIX shm object modelled in process memory (vsched::shm)"),
        s(
            "shm/shared.rs",
            "    sync::atomic::{AtomicU32, AtomicU64, AtomicUsize, Ordering},\n};\n",
            "};\nuse VS::atomic::{AtomicU32, AtomicU64, AtomicUsize, Ordering};\n",
            1,
            atom,
        ),
    ];
    // --- mutex_cas.rs: second copy of mutex.rs with the `cas_mutex` feature forced on
    let n_mutex = subs.iter().filter(|x| x.file == "mutex.rs").count();
    for i in 0..n_mutex {
        let m = &subs[i];
        if m.file == "mutex.rs" {
            let c = Sub {
                file: "mutex_cas.rs",
                from: m.from,
                to: m.to.clone(),
                count: m.count,
                why: m.why,
            };
            subs.push(c);
        }
    }
    subs.push(s("mutex_cas.rs", "feature = \"cas_mutex\"", "all()", 7, "compile the cas_mutex variant"));

    // guard: no other file of the copy may touch atomics / std::sync / threads un-instrumented
    let mut files = Vec::new();
    walk(&afc_src, Path::new(""), &mut files);
    let afc_out = out.join("afc");
    let _ = fs::remove_dir_all(&afc_out);
    let instrumented = ["mutex.rs", "memory/lender.rs", "shm/read.rs", "shm/write.rs", "shm/shared.rs"];
    for rel in &files {
        let rels = rel.to_string_lossy().replace('\\', "/");
        if rels == "lib.rs" || rels.starts_with("testing/") {
            continue;
        }
        let src = fs::read_to_string(afc_src.join(rel)).unwrap_or_else(|e| die(format!("read {rels}: {e}")));
        if !instrumented.contains(&rels.as_str()) && rels != "shm/tests.rs" {
            for needle in ["sync::atomic", "std::sync", "std::thread", "SYS_futex", "sched_yield", "spin_loop"] {
                if src.contains(needle) {
                    die(format!("{rels}: contains `{needle}` but has no instrumentation rule"));
                }
            }
        }
        let mut text = src.clone();
        apply(&mut text, &rels, &subs, &mut log);
        if instrumented.contains(&rels.as_str()) {
            // after the substitutions the only remaining mention of core atomics may be inside
            // cfg'd-out platform code (mutex.rs `mod macos`)
            let left = text.matches("sync::atomic").count();
            let allowed = if rels == "mutex.rs" { 1 } else { 0 };
            if left != allowed {
                die(format!("{rels}: {left} un-instrumented mention(s) of `sync::atomic` remain (allowed {allowed})"));
            }
        }
        if rels == "shm/posix.rs" {
            // every libc *function* of posix.rs must be modelled (constants and types may stay)
            for (i, _) in text.match_indices("libc::") {
                let rest = &text[i + 6..];
                let name: String = rest.chars().take_while(|c| c.is_ascii_alphanumeric() || *c == '_').collect();
                if rest[name.len()..].starts_with('(') {
                    die(format!("shm/posix.rs: un-modelled libc call `libc::{name}(`"));
                }
            }
        }
        let dst = afc_out.join(rel);
        fs::create_dir_all(dst.parent().unwrap()).unwrap();
        fs::write(&dst, relocate(&text, "afc_inst")).unwrap();
        if rels == "mutex.rs" {
            let mut t2 = src.clone();
            apply(&mut t2, "mutex_cas.rs", &subs, &mut log);
            fs::write(afc_out.join("mutex_cas.rs"), relocate(&t2, "afc_inst")).unwrap();
        }
    }

    // module root: mirrors lib.rs (asserted), minus `testing`, plus mutex_cas and vexport
    let lib = fs::read_to_string(afc_src.join("lib.rs")).unwrap_or_else(|e| die(format!("read lib.rs: {e}")));
    let decls: Vec<&str> = lib
        .lines()
        .map(str::trim)
        .filter(|l| {
            !l.starts_with("//")
                && (l.starts_with("mod ") || l.starts_with("pub mod ") || l.starts_with("pub use ") || *l == "#[macro_use]")
        })
        .collect();
    let expected = [
        "#[macro_use]",
        "mod features;",
        "mod buf;",
        "mod client;",
        "pub mod crypto;",
        "pub mod errno;",
        "mod error;",
        "mod header;",
        "pub mod memory;",
        "mod mutex;",
        "pub mod rust;",
        "pub mod shm;",
        "mod state;",
        "pub mod testing;",
        "mod util;",
        "pub use buf::*;",
        "pub use client::*;",
        "pub use error::*;",
        "pub use header::*;",
        "pub use state::*;",
        "pub use util::init_debug_logging;",
    ];
    if decls != expected {
        die(format!("lib.rs module list changed:\n  found    {decls:?}\n  expected {expected:?}"));
    }
    let root = r#"// GENERATED by vh-sched/build.rs: module root of the instrumented aranya-fast-channels copy.
#![allow(warnings, unexpected_cfgs)]
#![allow(clippy::all)]

#[macro_use]
mod features;

mod buf;
mod client;
pub mod crypto;
pub mod errno;
mod error;
mod header;
pub mod memory;
mod mutex;
mod mutex_cas;
pub mod rust;
pub mod shm;
mod state;
mod util;

pub use buf::*;
pub use client::*;
pub use error::*;
pub use header::*;
pub use state::*;

/// Crate-private items the harness drives.
pub mod vexport {
    pub(crate) use super::memory::lender::{Lender, Loan};
    pub(crate) use super::mutex::Mutex as FutexMutex;
    pub(crate) use super::mutex_cas::Mutex as CasMutex;
}
"#;
    fs::write(afc_out.join("mod.rs"), root).unwrap();

    // ------------------------------------------------------------------ aranya-policy-text repr.rs
    let tsubs = vec![
        s(
            "repr.rs",
            "        ptr::{self, NonNull},\n        sync::atomic,\n    };\n",
            "        ptr::{self, NonNull},\n    };\n    use VS::atomic;\n",
            1,
            atom,
        ),
    ];
    let mut t = fs::read_to_string(text_src.join("repr.rs")).unwrap_or_else(|e| die(format!("read repr.rs: {e}")));
    apply(&mut t, "repr.rs", &tsubs, &mut log);
    let code: String = t.lines().filter(|l| !l.trim_start().starts_with("//")).collect::<Vec<_>>().join("\n");
    if code.contains("sync::atomic") || code.contains("std::sync::") || code.contains("std::thread") {
        die("repr.rs: un-instrumented mention of `sync::atomic`/`std::sync::`/`std::thread` remains".into());
    }
    let text_out = out.join("text");
    let _ = fs::remove_dir_all(&text_out);
    fs::create_dir_all(&text_out).unwrap();
    fs::write(text_out.join("repr.rs"), relocate(&t, "text_inst")).unwrap();
    fs::write(
        text_out.join("mod.rs"),
        "// GENERATED by vh-sched/build.rs: instrumented aranya-policy-text/src/repr.rs\n#![allow(warnings)]\n#![allow(clippy::all)]\npub mod repr;\n",
    )
    .unwrap();

    // ------------------------------------------------------------------ include file + manifest
    fs::write(
        out.join("inst_root.rs"),
        format!(
            "#[path = {:?}]\npub mod afc_inst;\n#[path = {:?}]\npub mod text_inst;\npub const INST_MANIFEST: &str = {:?};\n",
            afc_out.join("mod.rs"),
            text_out.join("mod.rs"),
            log
        ),
    )
    .unwrap();
}
