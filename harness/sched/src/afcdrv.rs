// AFC state driver + oracle.  This file is `include!`d twice: in `crate::real` (where `afc` is the
// real `aranya_fast_channels` crate, used by the sequential parts) and in `crate::inst` (where
// `afc` is the instrumented copy `crate::afc_inst`, used by the concurrent parts under shuttle).
//
// The oracle is a model written from the property statements (C40, C41, C42):
//  * the writer's operations define a sequence of channel sets S_0, S_1, … (S_k = after k ops);
//  * a reader operation that ran while writer ops k0+1..k1 were (possibly) in progress may observe
//    any of S_k0..S_k1 for the channel it touches: if the channel is live in all of them the
//    operation must succeed, if its removal had returned before the operation started (gone in
//    S_k0) it must fail with not-found (from then on: removed channels never reappear);
//  * `add` fails with out-of-space iff the table is full, ids strictly increase;
//  * successful seals on one context carry consecutive sequence numbers (first context of a channel
//    starts at 0), checked by decrypting the output with an independently built key at that number;
//  * the in-memory state refuses a second live context for a channel.

use std::cell::{Cell, RefCell};

use afc::{AfcState, AranyaState, ChannelDirection, Client, Directed, Error, LocalChannelId, RemoveIfParams, Version};
use aranya_crypto::{
    Csprng, DeviceId, Random,
    afc::{AuthData, OpenKey, RawOpenKey, RawSealKey, SealKey, Seq},
    default::DefaultCipherSuite,
    policy::LabelId,
};
use vcommon::{Failure, idx};

use crate::{afct::*, vsched};

pub type CS = DefaultCipherSuite;

// ------------------------------------------------------------------------------------------------
// deterministic randomness and key material

pub struct DetRng(Cell<u64>);

impl DetRng {
    pub fn new(seed: u64) -> Self {
        DetRng(Cell::new(seed))
    }
    fn next(&self) -> u64 {
        let s = self.0.get().wrapping_add(0x9E37_79B9_7F4A_7C15);
        self.0.set(s);
        let mut z = s;
        z = (z ^ (z >> 30)).wrapping_mul(0xBF58_476D_1CE4_E5B9);
        z = (z ^ (z >> 27)).wrapping_mul(0x94D0_49BB_1331_11EB);
        z ^ (z >> 31)
    }
}

impl Csprng for DetRng {
    fn fill_bytes(&self, dst: &mut [u8]) {
        for c in dst.chunks_mut(8) {
            let b = self.next().to_le_bytes();
            c.copy_from_slice(&b[..c.len()]);
        }
    }
}

fn raw_seal(k: u8) -> RawSealKey<CS> {
    RawSealKey::random(&DetRng::new(0x5EA1_0000 + u64::from(k)))
}

fn raw_open(k: u8) -> RawOpenKey<CS> {
    // same byte stream as `raw_seal(k)`: the matching decryption key
    RawOpenKey::random(&DetRng::new(0x5EA1_0000 + u64::from(k)))
}

fn label(l: u8) -> LabelId {
    LabelId::from_bytes([0x10 + l; 32])
}

fn peer(p: u8) -> DeviceId {
    DeviceId::from_bytes([0x80 + p; 32])
}

fn ad(l: u8) -> AuthData {
    AuthData {
        version: u32::from(Version::V1 as u16),
        label_id: label(l),
    }
}

const HDR: usize = 8;

/// An id no state ever issues (ids count up from 0).
const NEVER_ISSUED: u64 = 1 << 48;

fn tag_size() -> usize {
    SealKey::<CS>::OVERHEAD
}

pub fn overhead() -> usize {
    tag_size() + HDR
}

/// Builds `ciphertext || tag || seq` with a key the harness derives itself (no AFC code involved).
fn make_msg(key: u8, l: u8, seq: u64, pt: &[u8]) -> Vec<u8> {
    let mut sk = SealKey::<CS>::from_raw(&raw_seal(key), Seq::new(seq)).expect("harness seal key");
    let n = pt.len() + tag_size();
    let mut out = vec![0u8; n + HDR];
    let got = sk.seal(&mut out[..n], pt, &ad(l)).expect("harness seal");
    assert_eq!(got.to_u64(), seq);
    out[n..].copy_from_slice(&seq.to_le_bytes());
    out
}

/// Decrypts an AFC message with an independently built key at the sequence number its header carries.
fn verify_ct(key: u8, l: u8, ct: &[u8]) -> Result<(u64, Vec<u8>), String> {
    if ct.len() < overhead() {
        return Err(format!("ciphertext too short: {}", ct.len()));
    }
    let n = ct.len() - HDR;
    let seq = u64::from_le_bytes(ct[n..].try_into().unwrap());
    let ok = OpenKey::<CS>::from_raw(&raw_open(key)).map_err(|e| format!("{e:?}"))?;
    let mut pt = vec![0u8; n - tag_size()];
    ok.open(&mut pt, &ct[..n], &ad(l), Seq::new(seq)).map_err(|e| format!("seq {seq}: {e:?}"))?;
    Ok((seq, pt))
}

fn idn(id: LocalChannelId) -> u64 {
    id.to_string().parse().expect("LocalChannelId displays as its number")
}

fn fabricate(n: u64) -> LocalChannelId {
    vcommon::serde_json::from_str(&n.to_string()).expect("LocalChannelId deserializes from a number")
}

// ------------------------------------------------------------------------------------------------
// back ends

pub trait Backend: 'static {
    type W: AranyaState<CipherSuite = CS> + Send + 'static;
    type R: AfcState<CipherSuite = CS> + Send + 'static;
    const SHM: bool;
    fn create(cap: usize, readers: usize) -> Result<(Self::W, Vec<Self::R>), String>;
    fn keys(s: &AddSpec) -> Directed<<Self::W as AranyaState>::SealKey, <Self::W as AranyaState>::OpenKey>;
    fn out_of_space(e: &<Self::W as AranyaState>::Error) -> bool;
}

pub struct Shm;
pub struct Mem;

static SHM_COUNTER: std::sync::atomic::AtomicU64 = std::sync::atomic::AtomicU64::new(0);

impl Backend for Shm {
    type W = afc::shm::WriteState<CS, DetRng>;
    type R = afc::shm::ReadState<CS>;
    const SHM: bool = true;

    fn create(cap: usize, readers: usize) -> Result<(Self::W, Vec<Self::R>), String> {
        use afc::shm::{Flag, Mode, Path, ReadState, WriteState, unlink};
        let n = SHM_COUNTER.fetch_add(1, std::sync::atomic::Ordering::Relaxed);
        let name = format!("/vhs{}_{}\0", std::process::id(), n);
        let path = Path::from_bytes(name.as_bytes()).map_err(|e| format!("path: {e:?}"))?;
        let _ = unlink(path);
        let w = WriteState::<CS, DetRng>::open(path, Flag::Create, Mode::ReadWrite, cap, DetRng::new(0xD00D))
            .map_err(|e| format!("WriteState::open: {e}"))?;
        let mut rs = Vec::new();
        for _ in 0..readers {
            match ReadState::<CS>::open(path, Flag::OpenOnly, Mode::ReadWrite, cap) {
                Ok(r) => rs.push(r),
                Err(e) => {
                    let _ = unlink(path);
                    return Err(format!("ReadState::open: {e}"));
                }
            }
        }
        let _ = unlink(path);
        Ok((w, rs))
    }

    fn keys(s: &AddSpec) -> Directed<RawSealKey<CS>, RawOpenKey<CS>> {
        match s.dir {
            Dir::Seal => Directed::SealOnly { seal: raw_seal(s.key) },
            Dir::Open => Directed::OpenOnly { open: raw_open(s.key) },
        }
    }

    fn out_of_space(e: &afc::shm::Error) -> bool {
        matches!(e, afc::shm::Error::OutOfSpace)
    }
}

impl Backend for Mem {
    type W = afc::memory::State<CS>;
    type R = afc::memory::State<CS>;
    const SHM: bool = false;

    fn create(_cap: usize, readers: usize) -> Result<(Self::W, Vec<Self::R>), String> {
        let w = afc::memory::State::<CS>::new();
        let rs = (0..readers).map(|_| w.clone()).collect();
        Ok((w, rs))
    }

    fn keys(s: &AddSpec) -> Directed<SealKey<CS>, OpenKey<CS>> {
        match s.dir {
            Dir::Seal => Directed::SealOnly {
                seal: SealKey::from_raw(&raw_seal(s.key), Seq::ZERO).expect("seal key"),
            },
            Dir::Open => Directed::OpenOnly {
                open: OpenKey::from_raw(&raw_open(s.key)).expect("open key"),
            },
        }
    }

    fn out_of_space(e: &Error) -> bool {
        matches!(e, Error::OutOfSpace)
    }
}

// ------------------------------------------------------------------------------------------------
// the model ("world"), shared by all tasks of a case (they run on one OS thread)

pub struct MChan {
    id: LocalChannelId,
    idn: u64,
    spec: AddSpec,
    added_at: usize,
    removed_at: Option<usize>,
    first_ctx_made: bool,
    /// contexts handed out whose drop has not begun / has not returned (in-memory state only)
    live_ctx: i32,
    outstanding_ctx: i32,
    setup_inflight: u32,
    setup_started: u64,
}

impl MChan {
    fn alive(&self, k: usize) -> bool {
        self.added_at <= k && self.removed_at.is_none_or(|r| r > k)
    }
}

pub struct Msg {
    key: u8,
    label: u8,
    seq: u64,
    pt: Vec<u8>,
    ct: Vec<u8>,
}

#[derive(Default, Clone, Debug)]
pub struct Stats {
    pub add_ok: u64,
    pub out_of_space: u64,
    pub removed: u64,
    pub remove_missing: u64,
    pub seal_ok: u64,
    pub seal_small: u64,
    pub seal_after_invalidation: u64,
    pub seal_not_found: u64,
    pub seal_key_expired_after_not_found: u64,
    pub open_ok: u64,
    pub open_auth_fail: u64,
    pub open_not_found: u64,
    pub open_after_invalidation: u64,
    pub setup_ok: u64,
    pub setup_not_found: u64,
    pub second_ctx_refused: u64,
    pub exists_true: u64,
    pub exists_false: u64,
    pub overlapped: u64,
    pub either_allowed: u64,
    pub table_checks: u64,
    pub full_table: u64,
    pub transient_reappearance: u64,
}

impl Stats {
    pub fn fields(&self) -> Vec<(&'static str, u64)> {
        vec![
            ("add_ok", self.add_ok),
            ("add_out_of_space", self.out_of_space),
            ("channel_removed", self.removed),
            ("remove_of_missing_channel", self.remove_missing),
            ("seal_ok", self.seal_ok),
            ("seal_buffer_too_small", self.seal_small),
            ("seal_ok_after_table_change", self.seal_after_invalidation),
            ("seal_not_found", self.seal_not_found),
            ("seal_key_expired_after_not_found", self.seal_key_expired_after_not_found),
            ("open_ok", self.open_ok),
            ("open_auth_fail", self.open_auth_fail),
            ("open_not_found", self.open_not_found),
            ("open_ok_after_table_change", self.open_after_invalidation),
            ("setup_ok", self.setup_ok),
            ("setup_not_found", self.setup_not_found),
            ("second_ctx_refused", self.second_ctx_refused),
            ("exists_true", self.exists_true),
            ("exists_false", self.exists_false),
            ("reader_op_overlapped_writer_op", self.overlapped),
            ("either_outcome_allowed", self.either_allowed),
            ("table_checks", self.table_checks),
            ("add_on_full_table", self.full_table),
            ("channel_seen_gone_then_present_during_removal", self.transient_reappearance),
        ]
    }

    pub fn add(&mut self, o: &Stats) {
        self.add_ok += o.add_ok;
        self.out_of_space += o.out_of_space;
        self.removed += o.removed;
        self.remove_missing += o.remove_missing;
        self.seal_ok += o.seal_ok;
        self.seal_small += o.seal_small;
        self.seal_after_invalidation += o.seal_after_invalidation;
        self.seal_not_found += o.seal_not_found;
        self.seal_key_expired_after_not_found += o.seal_key_expired_after_not_found;
        self.open_ok += o.open_ok;
        self.open_auth_fail += o.open_auth_fail;
        self.open_not_found += o.open_not_found;
        self.open_after_invalidation += o.open_after_invalidation;
        self.setup_ok += o.setup_ok;
        self.setup_not_found += o.setup_not_found;
        self.second_ctx_refused += o.second_ctx_refused;
        self.exists_true += o.exists_true;
        self.exists_false += o.exists_false;
        self.overlapped += o.overlapped;
        self.either_allowed += o.either_allowed;
        self.table_checks += o.table_checks;
        self.full_table += o.full_table;
        self.transient_reappearance += o.transient_reappearance;
    }
}

pub struct World {
    shm: bool,
    /// C41 only: a failing seal on a removed channel must report not-found every time
    strict_not_found: bool,
    cap: usize,
    chans: Vec<MChan>,
    started: usize,
    done: usize,
    last_id: Option<u64>,
    msgs: Vec<Msg>,
    pub stats: Stats,
}

thread_local! {
    static WORLD: RefCell<World> = RefCell::new(World {
        shm: true, strict_not_found: false, cap: 0, chans: Vec::new(), started: 0, done: 0, last_id: None, msgs: Vec::new(), stats: Stats::default(),
    });
}

pub fn wd<R>(f: impl FnOnce(&mut World) -> R) -> R {
    WORLD.with(|w| f(&mut w.borrow_mut()))
}

fn reset_world(shm: bool, cap: usize, strict_not_found: bool) {
    wd(|w| {
        *w = World {
            shm,
            strict_not_found,
            cap,
            chans: Vec::new(),
            started: 0,
            done: 0,
            last_id: None,
            msgs: Vec::new(),
            stats: Stats::default(),
        };
        // messages built by the harness itself, one per (key, label)
        for k in 0..NKEYS {
            for l in 0..NLABELS {
                let pt = vec![0x30 + k, 0x40 + l, 7, 7, 7];
                let seq = 100 + u64::from(k) * 10 + u64::from(l);
                w.msgs.push(Msg {
                    key: k,
                    label: l,
                    seq,
                    ct: make_msg(k, l, seq, &pt),
                    pt,
                });
            }
        }
    });
}

fn pred_matches(p: &Pred, spec: &AddSpec, idn: u64) -> bool {
    p.label.is_none_or(|l| l == spec.label)
        && p.peer.is_none_or(|x| x == spec.peer)
        && p.dir.is_none_or(|d| d == spec.dir)
        && p.odd_id.is_none_or(|o| (idn % 2 == 1) == o)
}

#[derive(PartialEq, Eq, Clone, Copy, Debug)]
enum Must {
    Ok,
    Fail,
    Either,
}

fn must(c: usize, k0: usize, k1: usize) -> Must {
    wd(|w| {
        let ch = &w.chans[c];
        if (k0..=k1).all(|k| ch.alive(k)) {
            Must::Ok
        } else if !ch.alive(k0) {
            Must::Fail
        } else {
            w.stats.either_allowed += 1;
            Must::Either
        }
    })
}

// ------------------------------------------------------------------------------------------------
// writer side

pub fn writer_op<B: Backend>(ws: &B::W, op: &WOp) {
    let shm = B::SHM;
    match op {
        WOp::CheckTables => {
            let (ids, done): (Vec<(LocalChannelId, bool)>, usize) = wd(|w| {
                let mut v: Vec<_> = w.chans.iter().map(|c| (c.id, c.alive(w.done))).collect();
                v.push((fabricate(NEVER_ISSUED), false));
                w.stats.table_checks += 1;
                (v, w.done)
            });
            for (id, want) in ids {
                match AranyaState::exists(ws, id) {
                    Ok(got) if got == want => {}
                    Ok(got) => vsched::violation(
                        "write copy disagrees with the channel set the writer produced",
                        format!("AranyaState::exists({id}) = {got}, model (after {done} writer ops) says {want}"),
                    ),
                    Err(e) => vsched::violation("AranyaState::exists failed", format!("exists({id}): {e}")),
                }
            }
        }
        WOp::Add(spec) => {
            let (j, full) = wd(|w| {
                w.started += 1;
                let j = w.started;
                let alive = w.chans.iter().filter(|c| c.alive(j - 1)).count();
                (j, shm && alive >= w.cap)
            });
            if full {
                wd(|w| w.stats.full_table += 1);
            }
            let r = ws.add(B::keys(spec), label(spec.label), peer(spec.peer));
            match r {
                Ok(id) => {
                    let n = idn(id);
                    if full {
                        vsched::violation(
                            "add succeeded although the table is full",
                            format!("add returned id {n} with cap={} channels live", wd(|w| w.cap)),
                        );
                    }
                    wd(|w| {
                        if let Some(l) = w.last_id {
                            if n <= l {
                                vsched::violation(
                                    "channel id reused or not increasing",
                                    format!("add returned id {n} after id {l}"),
                                );
                            }
                        }
                        w.last_id = Some(w.last_id.map_or(n, |l| l.max(n)));
                        w.stats.add_ok += 1;
                        w.chans.push(MChan {
                            id,
                            idn: n,
                            spec: *spec,
                            added_at: j,
                            removed_at: None,
                            first_ctx_made: false,
                            live_ctx: 0,
                            outstanding_ctx: 0,
                            setup_inflight: 0,
                            setup_started: 0,
                        });
                    });
                }
                Err(e) => {
                    if B::out_of_space(&e) {
                        wd(|w| w.stats.out_of_space += 1);
                        if !full {
                            vsched::violation(
                                "add failed with out-of-space although the table is not full",
                                format!("{} of {} slots in use", wd(|w| w.chans.iter().filter(|c| c.alive(j - 1)).count()), wd(|w| w.cap)),
                            );
                        }
                    } else {
                        vsched::violation("add failed", format!("{e}"));
                    }
                }
            }
            wd(|w| w.done = j);
        }
        WOp::Remove(i) => {
            let (j, id) = wd(|w| {
                w.started += 1;
                let j = w.started;
                let n = w.chans.len();
                let t = idx(*i, n + 1);
                if t < n {
                    if w.chans[t].alive(j - 1) {
                        w.chans[t].removed_at = Some(j);
                        w.stats.removed += 1;
                    } else {
                        w.stats.remove_missing += 1;
                    }
                    (j, w.chans[t].id)
                } else {
                    w.stats.remove_missing += 1;
                    (j, fabricate(NEVER_ISSUED))
                }
            });
            if let Err(e) = ws.remove(id) {
                vsched::violation("remove failed", format!("remove({id}): {e}"));
            }
            wd(|w| w.done = j);
        }
        WOp::RemoveAll => {
            let j = wd(|w| {
                w.started += 1;
                let j = w.started;
                for c in w.chans.iter_mut() {
                    if c.alive(j - 1) {
                        c.removed_at = Some(j);
                        w.stats.removed += 1;
                    }
                }
                j
            });
            if let Err(e) = ws.remove_all() {
                vsched::violation("remove_all failed", format!("{e}"));
            }
            wd(|w| w.done = j);
        }
        WOp::RemoveIf(p) => {
            let (j, live_before): (usize, Vec<u64>) = wd(|w| {
                w.started += 1;
                let j = w.started;
                let live: Vec<u64> = w.chans.iter().filter(|c| c.alive(j - 1)).map(|c| c.idn).collect();
                for c in w.chans.iter_mut() {
                    if c.alive(j - 1) && pred_matches(p, &c.spec, c.idn) {
                        c.removed_at = Some(j);
                        w.stats.removed += 1;
                    }
                }
                (j, live)
            });
            let visited: RefCell<Vec<u64>> = RefCell::new(Vec::new());
            let r = ws.remove_if(|prm: RemoveIfParams| {
                let n = idn(prm.local_channel_id);
                visited.borrow_mut().push(n);
                let found = wd(|w| {
                    w.chans.iter().find(|c| c.idn == n).map(|c| (c.spec, c.alive(j - 1)))
                });
                match found {
                    Some((spec, true)) => {
                        let dir_ok = (prm.direction == ChannelDirection::Seal) == (spec.dir == Dir::Seal);
                        if prm.label_id != label(spec.label) || prm.peer_id != peer(spec.peer) || !dir_ok {
                            vsched::violation(
                                "remove_if callback received parameters that differ from what was added",
                                format!("channel {n}: got label {} peer {} dir {:?}, added as {spec:?}", prm.label_id, prm.peer_id, prm.direction),
                            );
                        }
                        pred_matches(p, &spec, n)
                    }
                    _ => {
                        vsched::violation(
                            "remove_if callback received a channel that is not in the table",
                            format!("channel id {n}"),
                        );
                        false
                    }
                }
            });
            if let Err(e) = r {
                vsched::violation("remove_if failed", format!("{e}"));
            }
            let visited = visited.into_inner();
            for n in live_before {
                if !visited.contains(&n) {
                    vsched::violation(
                        "remove_if did not consult a live channel",
                        format!("channel {n} was live but the predicate was never called for it"),
                    );
                }
            }
            wd(|w| w.done = j);
        }
    }
}

// ------------------------------------------------------------------------------------------------
// reader side

pub struct Slot<B: Backend> {
    chan: usize,
    seal: Option<<B::R as AfcState>::SealCtx>,
    open: Option<<B::R as AfcState>::OpenCtx>,
    /// sequence number the next successful seal must carry (None: not pinned yet)
    next_seq: Option<u64>,
    seen_not_found: bool,
    /// number of completed writer ops when this context last sealed/opened successfully
    last_ok_at: Option<usize>,
}

pub struct Reader<B: Backend> {
    pub who: usize,
    pub client: Client<B::R>,
    pub slots: Vec<Slot<B>>,
    gone: Vec<usize>,
}

impl<B: Backend> Reader<B> {
    pub fn new(who: usize, st: B::R) -> Self {
        Reader {
            who,
            client: Client::new(st),
            slots: Vec::new(),
            gone: Vec::new(),
        }
    }

    /// A reader that stalls between loading the read offset and locking the list can consult the
    /// side the writer is just modifying, i.e. observe an in-progress removal early and, in its next
    /// operation, the still-published previous set again.  The statement anchors "never reappears" at
    /// the return of the removal, which is what `must()` enforces; such transient flips are only counted.
    fn saw_present(&mut self, c: usize, _what: &str) {
        if self.gone.contains(&c) {
            wd(|w| w.stats.transient_reappearance += 1);
            self.gone.retain(|x| *x != c);
        }
    }

    fn saw_gone(&mut self, c: usize) {
        if !self.gone.contains(&c) {
            self.gone.push(c);
        }
    }

    fn drop_slot(&mut self, i: usize) {
        let s = self.slots.remove(i);
        let c = s.chan;
        wd(|w| w.chans[c].live_ctx -= 1);
        drop(s);
        wd(|w| w.chans[c].outstanding_ctx -= 1);
    }

    pub fn finish(&mut self) {
        while !self.slots.is_empty() {
            self.drop_slot(0);
        }
    }
}

fn interval(k0: usize) -> usize {
    wd(|w| {
        let k1 = w.started;
        if k1 > k0 {
            w.stats.overlapped += 1;
        }
        k1
    })
}

pub fn reader_op<B: Backend>(rd: &mut Reader<B>, op: &ROp) {
    let shm = B::SHM;
    let who = rd.who;
    match *op {
        ROp::Yield => vsched::sched_point(),
        ROp::Exists(i) => {
            let (id, c, k0) = wd(|w| {
                let n = w.chans.len();
                let t = idx(i, n + 1);
                if t < n {
                    (w.chans[t].id, Some(t), w.done)
                } else {
                    (fabricate(NEVER_ISSUED), None, w.done)
                }
            });
            let r = AfcState::exists(rd.client.state(), id);
            let k1 = interval(k0);
            match r {
                Err(e) => vsched::violation("AfcState::exists failed", format!("exists({id}): {e}")),
                Ok(got) => {
                    wd(|w| if got { w.stats.exists_true += 1 } else { w.stats.exists_false += 1 });
                    match c {
                        None => {
                            if got {
                                vsched::violation(
                                    "read copy holds a channel the writer never produced",
                                    format!("reader {who}: exists({id}) = true for an id that was never issued"),
                                );
                            }
                        }
                        Some(c) => {
                            let m = must(c, k0, k1);
                            if got {
                                if m == Must::Fail {
                                    vsched::violation(
                                        "read copy still holds a channel after its removal returned",
                                        format!("reader {who}: exists({id}) = true; states {k0}..={k1}"),
                                    );
                                }
                                rd.saw_present(c, "exists");
                            } else {
                                if m == Must::Ok {
                                    vsched::violation(
                                        "read copy lacks a channel of every channel set the writer produced meanwhile",
                                        format!("reader {who}: exists({id}) = false; channel live in states {k0}..={k1}"),
                                    );
                                }
                                rd.saw_gone(c);
                            }
                        }
                    }
                }
            }
        }
        ROp::SetupSeal(i) | ROp::SetupOpen(i) => {
            let want_seal = matches!(op, ROp::SetupSeal(_));
            let pre = wd(|w| {
                let n = w.chans.len();
                if n == 0 {
                    return None;
                }
                let c = idx(i, n);
                let ch = &mut w.chans[c];
                let out0 = ch.outstanding_ctx;
                let infl0 = ch.setup_inflight;
                ch.setup_inflight += 1;
                ch.setup_started += 1;
                Some((c, ch.id, ch.spec, out0, infl0, ch.setup_started, w.done))
            });
            let Some((c, id, spec, out0, infl0, seq0, k0)) = pre else { return };
            let (seal, open, err) = if want_seal {
                match rd.client.setup_seal_ctx(id) {
                    Ok(x) => (Some(x), None, None),
                    Err(e) => (None, None, Some(e)),
                }
            } else {
                match rd.client.setup_open_ctx(id) {
                    Ok(x) => (None, Some(x), None),
                    Err(e) => (None, None, Some(e)),
                }
            };
            let k1 = interval(k0);
            let (live, seq1) = wd(|w| {
                let ch = &mut w.chans[c];
                ch.setup_inflight -= 1;
                (ch.live_ctx, ch.setup_started)
            });
            let dir_ok = (spec.dir == Dir::Seal) == want_seal;
            let m = must(c, k0, k1);
            match err {
                None => {
                    wd(|w| w.stats.setup_ok += 1);
                    if !dir_ok {
                        vsched::violation(
                            "context handed out for the wrong direction",
                            format!("reader {who}: setup_{}_ctx({id}) succeeded on a {:?} channel", if want_seal { "seal" } else { "open" }, spec.dir),
                        );
                    }
                    if m == Must::Fail {
                        vsched::violation(
                            "context handed out for a channel whose removal had returned",
                            format!("reader {who}: setup on channel {id}; states {k0}..={k1}"),
                        );
                    }
                    if !shm && live != 0 {
                        vsched::violation(
                            "second live context handed out for one channel",
                            format!("reader {who}: setup on channel {id} succeeded while {live} context(s) are live"),
                        );
                    }
                    rd.saw_present(c, "setup");
                    let first = wd(|w| {
                        let ch = &mut w.chans[c];
                        ch.live_ctx += 1;
                        ch.outstanding_ctx += 1;
                        let f = !ch.first_ctx_made;
                        ch.first_ctx_made = true;
                        f
                    });
                    rd.slots.push(Slot {
                        chan: c,
                        seal,
                        open,
                        next_seq: if first || shm { Some(0) } else { None },
                        seen_not_found: false,
                        last_ok_at: None,
                    });
                }
                Some(Error::NotFound(got)) if got == id => {
                    wd(|w| w.stats.setup_not_found += 1);
                    if dir_ok && m == Must::Ok {
                        if shm {
                            vsched::violation(
                                "setup failed with not-found although the channel exists",
                                format!("reader {who}: channel {id} live in states {k0}..={k1}"),
                            );
                        } else if out0 == 0 && infl0 == 0 && seq1 == seq0 {
                            vsched::violation(
                                "setup refused although the channel exists and has no context",
                                format!("reader {who}: channel {id} live in states {k0}..={k1}, no context outstanding, no overlapping setup"),
                            );
                        } else {
                            wd(|w| w.stats.second_ctx_refused += 1);
                        }
                    }
                    if dir_ok && m == Must::Fail {
                        rd.saw_gone(c);
                    }
                }
                Some(e) => vsched::violation("setup failed with an unexpected error", format!("reader {who}: setup on {id}: {e}")),
            }
        }
        ROp::DropCtx(i) => {
            if !rd.slots.is_empty() {
                let t = idx(i, rd.slots.len());
                rd.drop_slot(t);
            }
        }
        ROp::Seal { slot, len, small } => {
            let mut cands: Vec<usize> = (0..rd.slots.len()).filter(|i| rd.slots[*i].seal.is_some()).collect();
            if cands.is_empty() {
                // no seal context yet: try to set one up on the channel `slot` names
                reader_op::<B>(rd, &ROp::SetupSeal(slot));
                cands = (0..rd.slots.len()).filter(|i| rd.slots[*i].seal.is_some()).collect();
            }
            if cands.is_empty() {
                return;
            }
            let si = cands[idx(slot, cands.len())];
            let c = rd.slots[si].chan;
            let (id, spec, k0) = wd(|w| (w.chans[c].id, w.chans[c].spec, w.done));
            let pt: Vec<u8> = (0..len).map(|i| i ^ 0x5a).collect();
            let cap = pt.len() + overhead();
            let mut dst = vec![0u8; if small { cap - 1 } else { cap }];
            let r = {
                let s = &mut rd.slots[si];
                rd.client.seal(s.seal.as_mut().unwrap(), &mut dst, &pt)
            };
            let k1 = interval(k0);
            if small {
                wd(|w| w.stats.seal_small += 1);
                if !matches!(r, Err(Error::BufferTooSmall)) {
                    vsched::violation(
                        "seal into a too-small buffer did not fail with buffer-too-small",
                        format!("reader {who}: {:?}", r.as_ref().map(|_| ()).map_err(|e| e.to_string())),
                    );
                }
                return;
            }
            let m = must(c, k0, k1);
            match r {
                Ok(_hdr) => {
                    if m == Must::Fail {
                        vsched::violation(
                            "seal succeeded on a channel whose removal had returned",
                            format!("reader {who}: channel {id}; states {k0}..={k1}"),
                        );
                    }
                    rd.saw_present(c, "seal");
                    match verify_ct(spec.key, spec.label, &dst) {
                        Err(e) => vsched::violation(
                            "sealed message does not decrypt under the channel key at the sequence number it carries",
                            format!("reader {who}: channel {id}: {e}"),
                        ),
                        Ok((seq, got_pt)) => {
                            if got_pt != pt {
                                vsched::violation("sealed message decrypts to different plaintext", format!("reader {who}: channel {id} seq {seq}"));
                            }
                            let s = &mut rd.slots[si];
                            if let Some(want) = s.next_seq {
                                if seq != want {
                                    vsched::violation(
                                        "sequence number repeated or skipped within a seal context",
                                        format!("reader {who}: channel {id}: seal carried seq {seq}, expected {want}"),
                                    );
                                }
                            }
                            s.next_seq = Some(seq + 1);
                            let done = wd(|w| w.done);
                            wd(|w| {
                                w.stats.seal_ok += 1;
                                if s.last_ok_at.is_some_and(|l| l < done) {
                                    w.stats.seal_after_invalidation += 1;
                                }
                                w.msgs.push(Msg {
                                    key: spec.key,
                                    label: spec.label,
                                    seq,
                                    pt: pt.clone(),
                                    ct: dst.clone(),
                                });
                            });
                            s.last_ok_at = Some(done);
                        }
                    }
                }
                Err(Error::NotFound(got)) if got == id => {
                    wd(|w| w.stats.seal_not_found += 1);
                    if m == Must::Ok {
                        vsched::violation(
                            "seal failed with not-found on a channel that was not removed",
                            format!("reader {who}: channel {id} live in states {k0}..={k1}"),
                        );
                    }
                    rd.slots[si].seen_not_found = true;
                    rd.saw_gone(c);
                }
                Err(Error::KeyExpired) if shm && rd.slots[si].seen_not_found => {
                    wd(|w| w.stats.seal_key_expired_after_not_found += 1);
                    if m == Must::Ok {
                        vsched::violation(
                            "seal failed with key-expired on a channel that was not removed",
                            format!("reader {who}: channel {id} live in states {k0}..={k1}"),
                        );
                    }
                    if wd(|w| w.strict_not_found) {
                    vsched::soft_violation(
                        "seal on a removed channel fails with key-expired instead of not-found once the context saw not-found",
                        format!("reader {who}: channel {id}: second seal on the same context after Error::NotFound returned Error::KeyExpired"),
                    );
                    }
                }
                Err(e) => vsched::violation("seal failed with an unexpected error", format!("reader {who}: channel {id}: {e}")),
            }
        }
        ROp::Open { slot, msg } => {
            let mut cands: Vec<usize> = (0..rd.slots.len()).filter(|i| rd.slots[*i].open.is_some()).collect();
            if cands.is_empty() {
                reader_op::<B>(rd, &ROp::SetupOpen(slot));
                cands = (0..rd.slots.len()).filter(|i| rd.slots[*i].open.is_some()).collect();
            }
            if cands.is_empty() {
                return;
            }
            let si = cands[idx(slot, cands.len())];
            let c = rd.slots[si].chan;
            let (id, spec, k0, m_key, m_label, m_seq, m_pt, m_ct) = wd(|w| {
                let mi = idx(msg, w.msgs.len());
                let mm = &w.msgs[mi];
                (w.chans[c].id, w.chans[c].spec, w.done, mm.key, mm.label, mm.seq, mm.pt.clone(), mm.ct.clone())
            });
            let mut dst = vec![0u8; m_ct.len() - overhead()];
            let r = {
                let s = &mut rd.slots[si];
                rd.client.open(s.open.as_mut().unwrap(), &mut dst, &m_ct)
            };
            let k1 = interval(k0);
            let m = must(c, k0, k1);
            let matching = m_key == spec.key && m_label == spec.label;
            match r {
                Ok((l, seq)) => {
                    if m == Must::Fail {
                        vsched::violation(
                            "open succeeded on a channel whose removal had returned",
                            format!("reader {who}: channel {id}; states {k0}..={k1}"),
                        );
                    }
                    rd.saw_present(c, "open");
                    if !matching {
                        vsched::violation(
                            "open accepted a message sealed under another key or label",
                            format!("reader {who}: channel {id} ({spec:?}) opened a message of key {m_key} label {m_label}"),
                        );
                    } else if l != label(spec.label) || seq.to_u64() != m_seq || dst != m_pt {
                        vsched::violation(
                            "open returned wrong label, sequence number or plaintext",
                            format!("reader {who}: channel {id}: seq {} want {m_seq}", seq.to_u64()),
                        );
                    }
                    let done = wd(|w| w.done);
                    let s = &mut rd.slots[si];
                    wd(|w| {
                        w.stats.open_ok += 1;
                        if s.last_ok_at.is_some_and(|l| l < done) {
                            w.stats.open_after_invalidation += 1;
                        }
                    });
                    s.last_ok_at = Some(done);
                }
                Err(Error::NotFound(got)) if got == id => {
                    wd(|w| w.stats.open_not_found += 1);
                    if m == Must::Ok {
                        vsched::violation(
                            "open failed with not-found on a channel that was not removed",
                            format!("reader {who}: channel {id} live in states {k0}..={k1}"),
                        );
                    }
                    rd.slots[si].seen_not_found = true;
                    rd.saw_gone(c);
                }
                Err(Error::Authentication) => {
                    wd(|w| w.stats.open_auth_fail += 1);
                    if m == Must::Fail {
                        vsched::violation(
                            "open on a removed channel did not fail with not-found",
                            format!("reader {who}: channel {id}: authentication failure; states {k0}..={k1}"),
                        );
                    } else if matching {
                        vsched::violation(
                            "open rejected a message sealed for this channel",
                            format!("reader {who}: channel {id} ({spec:?}), message seq {m_seq}"),
                        );
                    }
                }
                Err(e) => vsched::violation("open failed with an unexpected error", format!("reader {who}: channel {id}: {e}")),
            }
        }
    }
}

// ------------------------------------------------------------------------------------------------
// whole-case drivers

fn quiescent_check<B: Backend>(ws: &B::W, readers: &[&Client<B::R>], what: &str) {
    let (ids, done): (Vec<(LocalChannelId, bool)>, usize) = wd(|w| {
        let mut v: Vec<_> = w.chans.iter().map(|c| (c.id, c.alive(w.done))).collect();
        v.push((fabricate(NEVER_ISSUED), false));
        (v, w.done)
    });
    for (id, want) in ids {
        match AranyaState::exists(ws, id) {
            Ok(got) if got == want => {}
            Ok(got) => vsched::violation(
                "write copy disagrees with the channel set the writer produced",
                format!("{what}: AranyaState::exists({id}) = {got}, model after {done} writer ops says {want}"),
            ),
            Err(e) => vsched::violation("AranyaState::exists failed", format!("exists({id}): {e}")),
        }
        for (ri, r) in readers.iter().enumerate() {
            match AfcState::exists(r.state(), id) {
                Ok(got) if got == want => {}
                Ok(got) => vsched::violation(
                    "read copy disagrees with the channel set the writer produced while no writer operation is in progress",
                    format!("{what}: reader {ri}: AfcState::exists({id}) = {got}, model after {done} writer ops says {want}"),
                ),
                Err(e) => vsched::violation("AfcState::exists failed", format!("exists({id}): {e}")),
            }
        }
    }
}

/// Sequential interpretation (no scheduler): every reader operation sees exactly one channel set.
pub fn seq_check<B: Backend>(case: &SeqCase, strict_not_found: bool) -> Result<Stats, (Stats, Failure)> {
    vsched::clear_violation();
    if Client::<B::R>::OVERHEAD != overhead() {
        return Err((Stats::default(), Failure::new("harness: wire overhead differs from Client::OVERHEAD", String::new())));
    }
    let cap = usize::from(case.cap.max(1));
    let nr = usize::from(case.readers.max(1));
    reset_world(B::SHM, cap, strict_not_found);
    let (ws, rs) = B::create(cap, nr).map_err(|e| (Stats::default(), Failure::new("harness: cannot create the state", e)))?;
    let mut readers: Vec<Reader<B>> = rs.into_iter().enumerate().map(|(i, r)| Reader::new(i, r)).collect();
    for (n, op) in case.ops.iter().enumerate() {
        match op {
            SeqOp::W(o) => {
                writer_op::<B>(&ws, o);
                let cl: Vec<&Client<B::R>> = readers.iter().map(|r| &r.client).collect();
                quiescent_check::<B>(&ws, &cl, &format!("after op #{n} {o:?}"));
            }
            SeqOp::R(i, o) => {
                let i = usize::from(*i) % readers.len();
                reader_op::<B>(&mut readers[i], o);
            }
        }
        if vsched::has_violation() {
            break;
        }
    }
    for r in readers.iter_mut() {
        r.finish();
    }
    let st = wd(|w| w.stats.clone());
    match vsched::take_violation() {
        Some(f) => Err((st, f)),
        None => Ok(st),
    }
}

/// Concurrent interpretation: one writer task and one task per reader, under the shuttle scheduler.
/// Must be called as the body of `vsched::explore`.
pub fn conc_body<B: Backend>(case: &ConcCase, strict_not_found: bool) -> Result<(), Failure> {
    let cap = usize::from(case.cap.max(1));
    let nr = case.readers.len().max(1);
    reset_world(B::SHM, cap, strict_not_found);
    let (ws, rs) = B::create(cap, nr).map_err(|e| Failure::new("harness: cannot create the state", e))?;
    for spec in &case.init {
        writer_op::<B>(&ws, &WOp::Add(*spec));
    }
    let wscript = case.writer.clone();
    let wh = vsched::spawn(move || {
        for op in &wscript {
            writer_op::<B>(&ws, op);
            if vsched::has_violation() {
                break;
            }
        }
        ws
    });
    let mut rhs = Vec::new();
    for (i, st) in rs.into_iter().enumerate() {
        let script = case.readers.get(i).cloned().unwrap_or_default();
        rhs.push(vsched::spawn(move || {
            let mut rd: Reader<B> = Reader::new(i, st);
            for op in &script {
                reader_op::<B>(&mut rd, op);
                if vsched::has_violation() {
                    break;
                }
            }
            rd.finish();
            rd.client
        }));
    }
    let ws = wh.join().map_err(|_| Failure::new("task panicked", "writer task".to_string()))?;
    let mut rds = Vec::new();
    for h in rhs {
        rds.push(h.join().map_err(|_| Failure::new("task panicked", "reader task".to_string()))?);
    }
    // quiescent: both copies must hold exactly the final channel set
    let cl: Vec<&Client<B::R>> = rds.iter().collect();
    quiescent_check::<B>(&ws, &cl, "after all tasks finished");
    Ok(())
}
