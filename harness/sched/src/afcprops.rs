//! C40, C41, C42: generators, case drivers and registration of the parts.
//!
//! Sequential parts drive the REAL `aranya-fast-channels` crate (`crate::real`); concurrent parts
//! drive the instrumented copy under the shuttle scheduler (`crate::inst`).  The oracle is the
//! model in `afcdrv.rs`; the three properties use the same interpreter with different generators
//! (what the scripts concentrate on) and different non-trivial rules.
use std::{cell::RefCell, sync::Arc};

use proptest::prelude::*;
use vcommon::{CaseInfo, CheckResult, Ctx, Report, Tier};

use crate::{
    afct::*,
    inst, real,
    vsched::{self, RunCfg},
};

#[derive(Clone, Copy, PartialEq, Eq)]
enum Prop {
    C40,
    C41,
    C42,
}

type WW = (u32, u32, u32, u32, u32);
type RW = (u32, u32, u32, u32, u32, u32, u32);

fn weights(p: Prop) -> (WW, RW, u32) {
    match p {
        // (add, remove, remove_if, remove_all, check), (setup_seal, setup_open, seal, open, drop, exists, yield), seal-channel weight
        Prop::C40 => ((5, 2, 3, 0, 1), (3, 0, 10, 0, 1, 1, 1), 4),
        Prop::C41 => ((3, 5, 3, 1, 1), (1, 1, 7, 7, 1, 2, 1), 2),
        Prop::C42 => ((6, 4, 3, 1, 3), (2, 2, 2, 1, 1, 6, 1), 2),
    }
}

/// C40 scripts keep channel id 0 (a seal channel) alive: every removal is `remove_if(odd id && …)`.
fn c40_wop(o: WOp) -> WOp {
    let odd = |p: Pred| Pred {
        odd_id: Some(true),
        ..p
    };
    match o {
        WOp::Remove(i) => WOp::RemoveIf(Pred {
            label: if i % 2 == 0 { None } else { Some((i % 2) as u8) },
            peer: None,
            dir: None,
            odd_id: Some(true),
        }),
        WOp::RemoveIf(p) => WOp::RemoveIf(odd(p)),
        WOp::RemoveAll => WOp::RemoveIf(Pred {
            label: None,
            peer: None,
            dir: None,
            odd_id: Some(true),
        }),
        o => o,
    }
}

const C40_FIRST: AddSpec = AddSpec {
    dir: Dir::Seal,
    key: 0,
    label: 0,
    peer: 0,
};

fn seq_case(p: Prop, max_ops: usize) -> impl Strategy<Value = SeqCase> {
    let (ww, rw, sw) = weights(p);
    let op = prop_oneof![
        2 => wop(ww, sw).prop_map(SeqOp::W),
        3 => (0u8..2, rop(rw)).prop_map(|(r, o)| SeqOp::R(r, o)),
    ];
    (1u8..=8, 1u8..=2, prop::collection::vec(op, 1..max_ops)).prop_map(move |(cap, readers, mut ops)| {
        let mut cap = cap;
        if p == Prop::C40 {
            cap = cap.max(2);
            for o in ops.iter_mut() {
                if let SeqOp::W(w) = o {
                    *w = c40_wop(w.clone());
                }
            }
            ops.insert(0, SeqOp::W(WOp::Add(C40_FIRST)));
            ops.insert(1, SeqOp::R(0, ROp::SetupSeal(0)));
        }
        SeqCase { cap, readers, ops }
    })
}

/// The smallest index value that `vcommon::idx(_, n)` maps to n - 1.
fn last_of(n: usize) -> u16 {
    let a = (n as u32 - 1) * 65536;
    a.div_ceil(n as u32).min(65535) as u16
}

fn seq_strategy(p: Prop, max_ops: usize) -> BoxedStrategy<SeqCase> {
    if p == Prop::C41 { seq_case_c41(max_ops).boxed() } else { seq_case(p, max_ops).boxed() }
}

/// C41 scripts start with a few channels that get a context and are used once (so that later
/// removals hit channels with cached keys), then continue with the generic mix.
fn seq_case_c41(max_ops: usize) -> impl Strategy<Value = SeqCase> {
    (prop::collection::vec((add_spec(2), 0u8..2, any::<u16>()), 1..4), seq_case(Prop::C41, max_ops)).prop_map(|(pre, mut c)| {
        let mut head = Vec::new();
        for (i, (spec, r, m)) in pre.iter().enumerate() {
            head.push(SeqOp::W(WOp::Add(*spec)));
            // `last_of(i + 1)` names the channel just added (index i of i + 1)
            let ch = last_of(i + 1);
            match spec.dir {
                Dir::Seal => {
                    head.push(SeqOp::R(*r, ROp::SetupSeal(ch)));
                    head.push(SeqOp::R(*r, ROp::Seal { slot: u16::MAX, len: 5, small: false }));
                }
                Dir::Open => {
                    head.push(SeqOp::R(*r, ROp::SetupOpen(ch)));
                    head.push(SeqOp::R(*r, ROp::Open { slot: u16::MAX, msg: *m }));
                }
            }
        }
        c.cap = c.cap.max(pre.len() as u8);
        head.append(&mut c.ops);
        c.ops = head;
        c
    })
}

fn conc_case(p: Prop, pct: bool) -> impl Strategy<Value = ConcCase> {
    let (ww, rw, sw) = weights(p);
    (
        2u8..=6,
        prop::collection::vec(add_spec(sw), 0..5),
        prop::collection::vec(wop(ww, sw), 1..7),
        prop::collection::vec(prop::collection::vec(rop(rw), 1..9), 1..=2),
        any::<u64>(),
        if pct { 1u8..=4 } else { 0u8..=0 },
    )
        .prop_map(move |(cap, mut init, mut writer, mut readers, seed, pct)| {
            init.truncate(usize::from(cap));
            if p == Prop::C40 {
                for w in writer.iter_mut() {
                    *w = c40_wop(w.clone());
                }
                if init.is_empty() {
                    init.push(C40_FIRST);
                } else {
                    init[0] = C40_FIRST;
                }
                // the first reader seals on channel 0 from the start
                readers[0].insert(0, ROp::SetupSeal(0));
            }
            if p == Prop::C41 {
                if init.is_empty() {
                    init.push(C40_FIRST);
                }
                // every reader first obtains a context on one initial channel and uses it once
                let n = init.len();
                for (ri, r) in readers.iter_mut().enumerate() {
                    let c = ri % n;
                    let ch = ((c as u32 * 65536).div_ceil(n as u32)).min(65535) as u16;
                    match init[c].dir {
                        Dir::Seal => {
                            r.insert(0, ROp::SetupSeal(ch));
                            r.insert(1, ROp::Seal { slot: 0, len: 3, small: false });
                        }
                        Dir::Open => {
                            r.insert(0, ROp::SetupOpen(ch));
                            r.insert(1, ROp::Open { slot: 0, msg: 0 });
                        }
                    }
                }
            }
            ConcCase {
                cap,
                init,
                writer,
                readers,
                seed,
                pct,
            }
        })
}

fn labels_and_rule(p: Prop, st: &inst_or_real::Stats, info: &mut CaseInfo) {
    for (n, v) in st.fields() {
        if v > 0 {
            info.label(n);
        }
    }
    let nt = match p {
        Prop::C40 => st.seal_after_invalidation >= 1,
        Prop::C41 => (st.seal_not_found + st.open_not_found) >= 1 && (st.seal_ok + st.open_ok) >= 1,
        Prop::C42 => st.removed >= 1 && st.add_ok >= 2 && (st.exists_true + st.exists_false + st.table_checks) >= 1,
    };
    if nt {
        info.nontrivial();
    }
}

/// Both instantiations of afcdrv.rs define the same `Stats`; convert through the field list.
pub mod inst_or_real {
    #[derive(Default)]
    pub struct Stats {
        pub seal_after_invalidation: u64,
        pub seal_not_found: u64,
        pub open_not_found: u64,
        pub seal_ok: u64,
        pub open_ok: u64,
        pub removed: u64,
        pub add_ok: u64,
        pub exists_true: u64,
        pub exists_false: u64,
        pub table_checks: u64,
        pub all: Vec<(&'static str, u64)>,
    }

    impl Stats {
        pub fn fields(&self) -> Vec<(&'static str, u64)> {
            self.all.clone()
        }
    }

    macro_rules! conv {
        ($s:expr) => {{
            let s = $s;
            $crate::afcprops::inst_or_real::Stats {
                seal_after_invalidation: s.seal_after_invalidation,
                seal_not_found: s.seal_not_found,
                open_not_found: s.open_not_found,
                seal_ok: s.seal_ok,
                open_ok: s.open_ok,
                removed: s.removed,
                add_ok: s.add_ok,
                exists_true: s.exists_true,
                exists_false: s.exists_false,
                table_checks: s.table_checks,
                all: s.fields(),
            }
        }};
    }
    pub(super) use conv;
}

fn seq_check<B: real::Backend>(p: Prop, case: &SeqCase, info: &mut CaseInfo) -> CheckResult {
    match real::seq_check::<B>(case, p == Prop::C41) {
        Ok(st) => {
            labels_and_rule(p, &inst_or_real::conv!(&st), info);
            Ok(())
        }
        Err((st, f)) => {
            labels_and_rule(p, &inst_or_real::conv!(&st), info);
            Err(f)
        }
    }
}

fn conc_check<B: inst::Backend>(p: Prop, case: &ConcCase, info: &mut CaseInfo, iters: usize) -> CheckResult {
    thread_local! { static ACC: RefCell<inst::Stats> = RefCell::new(inst::Stats::default()); }
    ACC.with(|a| *a.borrow_mut() = inst::Stats::default());
    let mut cfg = RunCfg::random(case.seed, iters);
    cfg.stack = 256 << 10;
    cfg.max_steps = 100_000;
    if case.pct > 0 {
        cfg.pct = Some(usize::from(case.pct));
    }
    let c = Arc::new(case.clone());
    let res = vsched::explore(&cfg, move || {
        let r = inst::conc_body::<B>(&c, p == Prop::C41);
        let s = inst::wd(|w| w.stats.clone());
        ACC.with(|a| a.borrow_mut().add(&s));
        r
    });
    let acc = ACC.with(|a| a.borrow().clone());
    labels_and_rule(p, &inst_or_real::conv!(&acc), info);
    let st = res?;
    if st.step_bound > 0 {
        info.label("some_schedules_hit_step_bound");
    }
    if st.completed == 0 {
        info.label("no_schedule_completed");
    }
    Ok(())
}

fn common_assumptions(rep: &mut Report<'_>, with_engine: bool) {
    if with_engine {
        crate::engine_assumptions(rep);
    }
    rep.assume(
        "single managing writer (WriteState is not Sync; the in-memory writer is one task), any number of readers; \
         channel keys are fixed raw AES-256-GCM keys built by the harness, the cipher suite is DefaultCipherSuite; \
         sequential parts run the real crate, concurrent parts the instrumented copy of the same source",
    );
    rep.assume(
        "seal contexts: the oracle requires consecutive sequence numbers inside one context and 0 for the first \
         context of a channel; where a later context of the same channel starts is not asserted (setup_seal_ctx is \
         documented as once-per-channel)",
    );
}

pub fn run(ctx: &Ctx, prop: &str) -> ! {
    let p = match prop {
        "C40" => Prop::C40,
        "C41" => Prop::C41,
        _ => Prop::C42,
    };
    let mut rep = Report::new(ctx, "exploration");
    rep.crash_guard = true;
    common_assumptions(&mut rep, true);
    let thorough = ctx.tier == Tier::Thorough;
    let seq_n = ctx.pick(2_000, 60_000);
    let conc_n = ctx.pick(300, 4_000);
    let iters = ctx.pick(200usize, 400);
    let seq_rule = match p {
        Prop::C40 => "op sequences (<=40 ops) on the real crate: channel 0 is a seal channel that is never removed and has a \
                      context from the start; seals (incl. too-small buffers), adds and remove_if of other channels, further \
                      setups/drops; non-trivial = a seal succeeded on a context after the table changed since its previous success",
        Prop::C41 => "op sequences (<=40 ops) on the real crate: add / remove / remove_if / remove_all interleaved with setup, \
                      seal, open, exists of 1-2 readers holding contexts; non-trivial = >=1 operation failed with not-found after \
                      a removal and >=1 seal/open succeeded",
        Prop::C42 => "writer op sequences (<=50 ops, cap 1-8) on the real crate vs a map model: add => out-of-space iff full, ids \
                      strictly increase, after every writer op exists(id) of the write copy == of each reader's read copy == \
                      model for every id ever issued and one never issued; non-trivial = >=2 adds, >=1 removal",
    };
    let conc_rule = "1 writer task + 1-2 reader tasks on the instrumented copy, N seeded schedules per script; a reader \
                     operation overlapping writer ops k0+1..k1 may observe any channel set S_k0..S_k1, must succeed if the \
                     channel is in all of them, must fail not-found if its removal had returned before the operation began; \
                     at the end both copies must equal the final set; same non-trivial rule, over all schedules of the script";
    let max_ops = if p == Prop::C42 { 50 } else { 40 };
    // development aid: VH_ONLY_PART=<name> runs a single part (never set by bin/check)
    let only = std::env::var("VH_ONLY_PART").ok();
    let want = |n: &str| only.as_deref().is_none_or(|o| o == n);
    if want("seq_shm") {
    rep.explore("seq_shm", seq_rule, || seq_strategy(p, max_ops), seq_n, move |c, i| seq_check::<real::Shm>(p, c, i));
    }
    if p != Prop::C42 && want("seq_mem") {
        rep.explore("seq_mem", seq_rule, || seq_strategy(p, max_ops), seq_n, move |c, i| seq_check::<real::Mem>(p, c, i));
    }
    if want("conc_shm") {
    rep.explore("conc_shm", conc_rule, || conc_case(p, false), conc_n, move |c, i| conc_check::<inst::Shm>(p, c, i, iters));
    }
    if p != Prop::C42 && want("conc_mem") {
        rep.explore("conc_mem", conc_rule, || conc_case(p, false), conc_n, move |c, i| conc_check::<inst::Mem>(p, c, i, iters));
    }
    if thorough || ctx.is_replay() {
        rep.explore("conc_shm_pct", conc_rule, || conc_case(p, true), conc_n / 2, move |c, i| {
            conc_check::<inst::Shm>(p, c, i, iters)
        });
        if p != Prop::C42 {
            rep.explore("conc_mem_pct", conc_rule, || conc_case(p, true), conc_n / 2, move |c, i| {
                conc_check::<inst::Mem>(p, c, i, iters)
            });
        }
    }
    crate::finish(rep)
}
