//! Script types and generators shared by the AFC state checks (C40, C41, C42), sequential and
//! concurrent, real crate and instrumented copy.
use proptest::prelude::*;
use serde::{Deserialize, Serialize};

pub const NKEYS: u8 = 3;
pub const NLABELS: u8 = 2;
pub const NPEERS: u8 = 2;

#[derive(Clone, Copy, Debug, PartialEq, Eq, Serialize, Deserialize)]
pub enum Dir {
    Seal,
    Open,
}

#[derive(Clone, Copy, Debug, PartialEq, Eq, Serialize, Deserialize)]
pub struct AddSpec {
    pub dir: Dir,
    pub key: u8,
    pub label: u8,
    pub peer: u8,
}

/// Conjunctive predicate for `remove_if` (all `None` selects every channel).
#[derive(Clone, Copy, Debug, Serialize, Deserialize)]
pub struct Pred {
    pub label: Option<u8>,
    pub peer: Option<u8>,
    pub dir: Option<Dir>,
    pub odd_id: Option<bool>,
}

#[derive(Clone, Debug, Serialize, Deserialize)]
pub enum WOp {
    Add(AddSpec),
    /// index into the channels added so far; the last index value names an id that was never issued
    Remove(u16),
    RemoveIf(Pred),
    RemoveAll,
    /// compare `exists` of the write copy (and, when sequential, of the read copy) with the model for every id
    CheckTables,
}

#[derive(Clone, Debug, Serialize, Deserialize)]
pub enum ROp {
    SetupSeal(u16),
    SetupOpen(u16),
    Seal { slot: u16, len: u8, small: bool },
    Open { slot: u16, msg: u16 },
    DropCtx(u16),
    Exists(u16),
    Yield,
}

#[derive(Clone, Debug, Serialize, Deserialize)]
pub enum SeqOp {
    W(WOp),
    R(u8, ROp),
}

#[derive(Clone, Debug, Serialize, Deserialize)]
pub struct SeqCase {
    pub cap: u8,
    pub readers: u8,
    pub ops: Vec<SeqOp>,
}

#[derive(Clone, Debug, Serialize, Deserialize)]
pub struct ConcCase {
    pub cap: u8,
    /// channels added before the tasks start
    pub init: Vec<AddSpec>,
    pub writer: Vec<WOp>,
    pub readers: Vec<Vec<ROp>>,
    pub seed: u64,
    pub pct: u8,
}

pub fn dir() -> impl Strategy<Value = Dir> {
    prop_oneof![Just(Dir::Seal), Just(Dir::Open)]
}

pub fn add_spec(seal_weight: u32) -> impl Strategy<Value = AddSpec> {
    (prop_oneof![seal_weight => Just(Dir::Seal), 2 => Just(Dir::Open)], 0..NKEYS, 0..NLABELS, 0..NPEERS)
        .prop_map(|(dir, key, label, peer)| AddSpec { dir, key, label, peer })
}

pub fn pred() -> impl Strategy<Value = Pred> {
    (
        prop::option::weighted(0.4, 0..NLABELS),
        prop::option::weighted(0.3, 0..NPEERS),
        prop::option::weighted(0.3, dir()),
        prop::option::weighted(0.4, any::<bool>()),
    )
        .prop_map(|(label, peer, dir, odd_id)| Pred { label, peer, dir, odd_id })
}

/// Weights: (add, remove, remove_if, remove_all, check)
pub fn wop(w: (u32, u32, u32, u32, u32), seal_weight: u32) -> impl Strategy<Value = WOp> {
    prop_oneof![
        w.0 => add_spec(seal_weight).prop_map(WOp::Add),
        w.1 => any::<u16>().prop_map(WOp::Remove),
        w.2 => pred().prop_map(WOp::RemoveIf),
        w.3 => Just(WOp::RemoveAll),
        w.4 => Just(WOp::CheckTables),
    ]
}

/// Weights: (setup_seal, setup_open, seal, open, drop, exists, yield)
pub fn rop(w: (u32, u32, u32, u32, u32, u32, u32)) -> impl Strategy<Value = ROp> {
    prop_oneof![
        w.0 => any::<u16>().prop_map(ROp::SetupSeal),
        w.1 => any::<u16>().prop_map(ROp::SetupOpen),
        w.2 => (any::<u16>(), 0u8..40, prop::bool::weighted(0.1)).prop_map(|(slot, len, small)| ROp::Seal { slot, len, small }),
        w.3 => (any::<u16>(), any::<u16>()).prop_map(|(slot, msg)| ROp::Open { slot, msg }),
        w.4 => any::<u16>().prop_map(ROp::DropCtx),
        w.5 => any::<u16>().prop_map(ROp::Exists),
        w.6 => Just(ROp::Yield),
    ]
}
