//! C33: shared text storage is memory safe across threads.
//!
//! Instrumented copy of `aranya-policy-text/src/repr.rs` (the `ArcStr` reference count accesses
//! and the fence are scheduling points).  1–3 heap-backed `Repr` values are shared by 2–4 shuttle
//! tasks that run generated scripts of clone (from the shared base or from an own handle) / read and
//! compare / drop / move a handle to another task / release the shared base.
//!
//! Oracle: every read must return the bytes the value was created from (a freed block is poisoned
//! and never reused during the case, so a read of freed memory differs); after every operation the
//! number of live heap blocks must be >= the number of values that still have a handle (a block
//! freed while handles exist); at the end no block may be live (leak), none freed twice, none
//! written after free, none freed with a different layout.
use std::{
    cell::RefCell,
    sync::{Arc, Mutex as StdMutex},
};

use proptest::prelude::*;
use serde::{Deserialize, Serialize};
use vcommon::{CaseInfo, CheckResult, Ctx, Failure, Report};

use crate::{
    text_inst::repr::Repr,
    vsched::{self, RunCfg, qalloc},
};

#[derive(Clone, Debug, Serialize, Deserialize)]
pub enum Op {
    /// clone value #.0 from the shared base (if this task still holds the base)
    CloneBase(u8),
    /// clone own handle #.0
    Clone(u8),
    Read(u8),
    ReadBase(u8),
    Drop(u8),
    Send(u8, u8),
    Recv,
    DropBase,
    Yield,
}

#[derive(Clone, Debug, Serialize, Deserialize)]
pub struct Case {
    /// byte length of each shared value (> 22 = heap-backed)
    lens: Vec<u8>,
    tasks: Vec<Vec<Op>>,
    seed: u64,
    pct: u8,
}

fn content(v: usize, len: usize) -> String {
    (0..len).map(|i| (b'a' + ((i * 7 + v * 11) % 26) as u8) as char).collect()
}

struct Handle {
    v: usize,
    r: Repr,
}

#[derive(Default)]
struct H {
    /// per value: number of handles (incremented after a clone returned, decremented before a drop begins)
    handles: Vec<u32>,
    heap: Vec<bool>,
    clones: u64,
    reads: u64,
    drops: u64,
    moved: u64,
}

thread_local! {
    static HS: RefCell<H> = RefCell::new(H::default());
}

fn h<R>(f: impl FnOnce(&mut H) -> R) -> R {
    HS.with(|x| f(&mut x.borrow_mut()))
}

fn check_live(what: &str) {
    let need = h(|h| h.handles.iter().zip(&h.heap).filter(|(n, heap)| **n > 0 && **heap).count());
    let live = qalloc::live();
    if live < need {
        vsched::violation(
            "heap text freed while handles to it exist",
            format!("after {what}: {need} heap value(s) still have handles but only {live} block(s) are live"),
        );
    }
}

fn read(hd: &Handle, lens: &[u8], who: usize) {
    let want = content(hd.v, usize::from(lens[hd.v]));
    let got = hd.r.as_str().as_bytes();
    h(|h| h.reads += 1);
    if got != want.as_bytes() {
        vsched::violation(
            "text read returned wrong bytes (freed or corrupted memory)",
            format!("task {who}: value {} reads {:x?}, expected {want:?}", hd.v, &got[..got.len().min(16)]),
        );
    }
}

fn clone_of(r: &Repr, v: usize) -> Handle {
    let c = r.clone();
    h(|h| {
        h.handles[v] += 1;
        h.clones += 1;
    });
    check_live("clone");
    Handle { v, r: c }
}

fn drop_handle(hd: Handle) {
    h(|h| {
        h.handles[hd.v] -= 1;
        h.drops += 1;
    });
    drop(hd.r);
    check_live("drop");
}

struct Base {
    vals: Vec<Repr>,
}

fn drop_base(b: Arc<Base>) {
    if Arc::strong_count(&b) == 1 {
        // the values themselves go away now: one handle each
        let n = b.vals.len();
        for v in 0..n {
            h(|h| h.handles[v] -= 1);
        }
    }
    drop(b);
    check_live("release of the shared base");
}

fn body(case: &Case) -> Result<(), Failure> {
    let nv = case.lens.len();
    HS.with(|x| {
        *x.borrow_mut() = H {
            handles: vec![1; nv],
            heap: case.lens.iter().map(|l| usize::from(*l) > 22).collect(),
            ..H::default()
        }
    });
    let base = Arc::new(Base {
        vals: (0..nv)
            .map(|v| {
                let s = content(v, usize::from(case.lens[v]));
                qalloc::tracked(|| Repr::from_str(&s))
            })
            .collect(),
    });
    let heap_vals = case.lens.iter().filter(|l| usize::from(**l) > 22).count();
    if qalloc::live() != heap_vals {
        return Err(Failure::new(
            "harness: unexpected number of heap blocks after creating the values",
            format!("live {} expected {heap_vals}", qalloc::live()),
        ));
    }
    let n = case.tasks.len();
    let inboxes: Arc<Vec<StdMutex<Vec<Handle>>>> = Arc::new((0..n).map(|_| StdMutex::new(Vec::new())).collect());
    let lens = Arc::new(case.lens.clone());
    let mut hs = Vec::new();
    for (ti, script) in case.tasks.iter().enumerate() {
        let script = script.clone();
        let mut my_base = Some(Arc::clone(&base));
        let inboxes = Arc::clone(&inboxes);
        let lens = Arc::clone(&lens);
        hs.push(vsched::spawn(move || {
            let mut mine: Vec<Handle> = Vec::new();
            for op in &script {
                match *op {
                    Op::CloneBase(v) => {
                        if let Some(b) = &my_base {
                            let v = usize::from(v) % b.vals.len();
                            mine.push(clone_of(&b.vals[v], v));
                        }
                    }
                    Op::ReadBase(v) => {
                        if let Some(b) = &my_base {
                            let v = usize::from(v) % b.vals.len();
                            let want = content(v, usize::from(lens[v]));
                            if b.vals[v].as_str().as_bytes() != want.as_bytes() {
                                vsched::violation(
                                    "text read returned wrong bytes (freed or corrupted memory)",
                                    format!("task {ti}: base value {v} differs from {want:?}"),
                                );
                            }
                        }
                    }
                    Op::Clone(k) => {
                        if !mine.is_empty() {
                            let i = usize::from(k) % mine.len();
                            let c = clone_of(&mine[i].r, mine[i].v);
                            mine.push(c);
                        }
                    }
                    Op::Read(k) => {
                        if !mine.is_empty() {
                            let i = usize::from(k) % mine.len();
                            read(&mine[i], &lens, ti);
                        }
                    }
                    Op::Drop(k) => {
                        if !mine.is_empty() {
                            let i = usize::from(k) % mine.len();
                            drop_handle(mine.remove(i));
                        }
                    }
                    Op::Send(k, to) => {
                        if !mine.is_empty() && n > 1 {
                            let i = usize::from(k) % mine.len();
                            let dst = (ti + 1 + usize::from(to) % (n - 1)) % n;
                            inboxes[dst].lock().unwrap().push(mine.remove(i));
                            h(|h| h.moved += 1);
                            vsched::sched_point();
                        }
                    }
                    Op::Recv => {
                        let got = inboxes[ti].lock().unwrap().pop();
                        if let Some(x) = got {
                            read(&x, &lens, ti);
                            mine.push(x);
                        }
                    }
                    Op::DropBase => {
                        if let Some(b) = my_base.take() {
                            drop_base(b);
                        }
                    }
                    Op::Yield => vsched::sched_point(),
                }
            }
            // read everything once more, then let go
            for x in &mine {
                read(x, &lens, ti);
            }
            if let Some(b) = my_base.take() {
                drop_base(b);
            }
            for x in mine.drain(..) {
                drop_handle(x);
            }
        }));
    }
    drop_base(base);
    for hd in hs {
        if hd.join().is_err() {
            return Err(Failure::new("task panicked", "a task panicked".to_string()));
        }
    }
    for ib in inboxes.iter() {
        let v: Vec<Handle> = std::mem::take(&mut *ib.lock().unwrap());
        for x in v {
            read(&x, &lens, usize::MAX);
            drop_handle(x);
        }
    }
    let left = h(|h| h.handles.iter().sum::<u32>());
    if left != 0 {
        return Err(Failure::new("harness: handle bookkeeping is off", format!("{left} handles left")));
    }
    let sum = qalloc::finish_report();
    crate::c44::alloc_verdict(&sum)
}

fn check(case: &Case, info: &mut CaseInfo, iters: usize) -> CheckResult {
    if std::env::var_os("VH_SELFTEST_SEGV").is_some() && case.tasks.len() == 3 && case.lens.len() == 2 {
        // self-test of the crash guard (never set by a registered command)
        unsafe { std::ptr::write_volatile(8 as *mut u8, 1) };
    }
    let mut cfg = RunCfg::random(case.seed, iters);
    cfg.stack = 64 << 10;
    cfg.max_steps = 20_000;
    if case.pct > 0 {
        cfg.pct = Some(usize::from(case.pct));
    }
    thread_local! { static ACC: RefCell<[u64; 4]> = const { RefCell::new([0; 4]) }; }
    ACC.with(|a| *a.borrow_mut() = [0; 4]);
    let c = Arc::new(case.clone());
    let st = vsched::explore(&cfg, move || {
        let r = body(&c);
        h(|h| {
            ACC.with(|a| {
                let mut a = a.borrow_mut();
                a[0] += h.clones;
                a[1] += h.reads;
                a[2] += h.drops;
                a[3] += h.moved;
            })
        });
        r
    })?;
    let a = ACC.with(|a| *a.borrow());
    let heap = case.lens.iter().filter(|l| **l > 22).count();
    info.label(format!("heap_values={heap}"));
    info.label(format!("tasks={}", case.tasks.len()));
    if a[3] > 0 {
        info.label("handle_moved_between_tasks");
    }
    if st.step_bound > 0 {
        info.label("some_schedules_hit_step_bound");
    }
    // tasks that clone and drop the same heap value
    let mut cloners = 0;
    for t in &case.tasks {
        if t.iter().any(|o| matches!(o, Op::CloneBase(_) | Op::Clone(_))) && t.iter().any(|o| matches!(o, Op::Drop(_))) {
            cloners += 1;
        }
    }
    if cloners >= 2 {
        info.label("two_tasks_clone_and_drop");
    }
    if heap >= 1 && cloners >= 2 && a[0] > 0 && a[2] > 0 && st.completed > 0 {
        info.nontrivial();
    }
    Ok(())
}

fn op() -> impl Strategy<Value = Op> {
    prop_oneof![
        5 => any::<u8>().prop_map(Op::CloneBase),
        2 => any::<u8>().prop_map(Op::Clone),
        4 => any::<u8>().prop_map(Op::Read),
        1 => any::<u8>().prop_map(Op::ReadBase),
        5 => any::<u8>().prop_map(Op::Drop),
        1 => (any::<u8>(), any::<u8>()).prop_map(|(a, b)| Op::Send(a, b)),
        1 => Just(Op::Recv),
        2 => Just(Op::DropBase),
        1 => Just(Op::Yield),
    ]
}

fn case(max_tasks: usize, pct: bool) -> impl Strategy<Value = Case> {
    (
        prop::collection::vec(prop_oneof![6 => 23u8..=90, 1 => 0u8..=22], 1..=3),
        prop::collection::vec(prop::collection::vec(op(), 1..12), 2..=max_tasks),
        any::<u64>(),
        if pct { 1u8..=4 } else { 0u8..=0 },
    )
        .prop_map(|(lens, tasks, seed, pct)| Case { lens, tasks, seed, pct })
}

// ---------------------------------------------------------------------------------------------
// Part `miri_ordering`: the same kind of scripts on the REAL crate, real threads, interpreted by
// Miri (vh-miri33).  Miri's happens-before data-race detector, borrow tracker and leak check are the
// oracle, so that ordering-strength defects (a too-weak ordering on the reference count) that no
// sequentially consistent interleaving can show are decided too.
// ---------------------------------------------------------------------------------------------
mod miri {
    use std::{path::PathBuf, process::Command, sync::OnceLock};

    use proptest::prelude::*;
    use serde::{Deserialize, Serialize};
    use vcommon::{CaseInfo, CheckResult, Failure};

    #[derive(Clone, Debug, Serialize, Deserialize)]
    pub struct Scn {
        len: u8,
        /// b = main drops its handle before any join, m = after the first join, a = after all joins
        main: char,
        /// per thread: ops out of c r d s g y
        threads: Vec<String>,
    }

    #[derive(Clone, Debug, Serialize, Deserialize)]
    pub struct Case {
        miri_seed: u32,
        /// false: Miri's weak-memory emulation off (every load sees the latest store)
        weak: bool,
        /// preemption rate in percent
        preempt: u8,
        scns: Vec<Scn>,
    }

    fn script() -> impl Strategy<Value = String> {
        prop::collection::vec(
            prop_oneof![3 => Just('c'), 5 => Just('r'), 5 => Just('d'), 1 => Just('s'), 1 => Just('g'), 1 => Just('y')],
            0..7,
        )
        .prop_map(|v| v.into_iter().collect())
    }

    fn scn() -> impl Strategy<Value = Scn> {
        (
            prop_oneof![6 => 23u8..=80, 1 => 0u8..=22],
            prop_oneof![3 => Just('b'), 1 => Just('m'), 1 => Just('a')],
            prop::collection::vec(script(), 2..=4),
        )
            .prop_map(|(len, main, threads)| Scn { len, main, threads })
    }

    pub fn case() -> impl Strategy<Value = Case> {
        (any::<u32>(), any::<bool>(), prop_oneof![Just(0u8), Just(1), Just(5), Just(25)], prop::collection::vec(scn(), 1..=6))
            .prop_map(|(miri_seed, weak, preempt, scns)| Case { miri_seed, weak, preempt, scns })
    }

    fn harness_dir() -> PathBuf {
        PathBuf::from(concat!(env!("CARGO_MANIFEST_DIR"), "/.."))
    }

    fn sysroot() -> PathBuf {
        if let Ok(p) = std::env::var("VERIF_MIRI_SYSROOT") {
            return PathBuf::from(p);
        }
        // <target-dir>/miri-sysroot; the target dir is the one this binary was started from
        let exe = std::env::current_exe().expect("current_exe");
        exe.parent().and_then(|p| p.parent()).expect("target dir").join("miri-sysroot")
    }

    fn cargo_miri(args: &[&str], flags: &str) -> Command {
        let mut c = Command::new("cargo");
        c.current_dir(harness_dir())
            .arg("+nightly")
            .arg("miri")
            .args(args)
            .env("CARGO_NET_OFFLINE", "true")
            .env("MIRI_SYSROOT", sysroot())
            .env("MIRIFLAGS", flags)
            .env_remove("RUSTFLAGS")
            .env_remove("CARGO_TARGET_DIR");
        if let Some(t) = std::env::current_exe().ok().and_then(|e| e.parent().and_then(|p| p.parent()).map(|p| p.to_path_buf())) {
            c.env("CARGO_TARGET_DIR", t);
        }
        c
    }

    fn inconclusive(msg: &str) -> ! {
        println!("INCONCLUSIVE property=C33 {msg}");
        std::process::exit(2);
    }

    /// Builds the Miri sysroot (once per target dir) and the interpreted program; exit 2 if that is impossible.
    pub fn warm() {
        static ONCE: OnceLock<()> = OnceLock::new();
        ONCE.get_or_init(|| {
            if !sysroot().join("lib").exists() {
                let out = cargo_miri(&["setup"], "").output();
                match out {
                    Ok(o) if o.status.success() => {}
                    Ok(o) => inconclusive(&format!(
                        "cargo miri setup failed: {}",
                        String::from_utf8_lossy(&o.stderr).lines().rev().take(3).collect::<Vec<_>>().join(" | ")
                    )),
                    Err(e) => inconclusive(&format!("cannot start cargo miri setup: {e}")),
                }
            }
            let out = cargo_miri(&["run", "-q", "-p", "vh-miri33", "--"], "").output();
            match out {
                Ok(o) if o.status.success() && String::from_utf8_lossy(&o.stderr).contains("ALL-SCENARIOS-DONE") => {}
                Ok(o) => inconclusive(&format!(
                    "Miri build of vh-miri33 failed: {}",
                    String::from_utf8_lossy(&o.stderr).lines().rev().take(5).collect::<Vec<_>>().join(" | ")
                )),
                Err(e) => inconclusive(&format!("cannot start cargo miri run: {e}")),
            }
        });
    }

    fn normalise(line: &str) -> String {
        // "error: Undefined Behavior: Data race detected between (1) non-atomic read on thread `unnamed-1` and (2) deallocation on thread `unnamed-2` at alloc1+0x10"
        let l = line.trim_start_matches("error: ");
        let mut out = String::new();
        for ch in l.chars() {
            if ch.is_ascii_digit() {
                if !out.ends_with('#') {
                    out.push('#');
                }
            } else {
                out.push(ch);
            }
        }
        for cut in [" at alloc", " (Rust heap", ", allocated here"] {
            if let Some(i) = out.find(cut) {
                out.truncate(i);
            }
        }
        // thread names differ by schedule
        out.replace("`unnamed-#`", "`T`").replace("`main`", "`T`")
    }

    pub fn check(c: &Case, info: &mut CaseInfo) -> CheckResult {
        warm();
        let mut flags = format!("-Zmiri-seed={} -Zmiri-preemption-rate={:.2}", c.miri_seed, f64::from(c.preempt) / 100.0);
        if !c.weak {
            flags.push_str(" -Zmiri-disable-weak-memory-emulation");
        }
        let args: Vec<String> = c.scns.iter().map(|s| format!("{},{},{}", s.len, s.main, s.threads.join("/"))).collect();
        let mut cmd = cargo_miri(&["run", "-q", "-p", "vh-miri33", "--"], &flags);
        cmd.args(&args);
        let out = match cmd.output() {
            Ok(o) => o,
            Err(e) => inconclusive(&format!("cannot start cargo miri run: {e}")),
        };
        let err = String::from_utf8_lossy(&out.stderr).to_string();
        let mut nontrivial = false;
        for s in &c.scns {
            let busy = s.threads.iter().filter(|t| t.contains('r') || t.contains('d') || t.contains('c')).count();
            if s.len > 22 && busy >= 2 {
                nontrivial = true;
            }
            info.label(format!("main_drop={}", s.main));
        }
        info.label(if c.weak { "weak_memory_emulation" } else { "sequentially_consistent_loads" });
        info.label(format!("preempt={}%", c.preempt));
        info.label(format!("scenarios={}", c.scns.len()));
        if out.status.success() {
            if !err.contains("ALL-SCENARIOS-DONE") {
                inconclusive("Miri run ended successfully without finishing the scenarios");
            }
            if nontrivial {
                info.nontrivial();
            }
            return Ok(());
        }
        let last_scn = err.lines().filter(|l| l.starts_with("SCENARIO ")).last().unwrap_or("").to_string();
        if let Some(l) = err.lines().find(|l| l.starts_with("error: Undefined Behavior") || l.starts_with("error: memory leaked")) {
            return Err(Failure::new(format!("Miri: {}", normalise(l)), format!("{last_scn}\nMIRIFLAGS={flags}\n{}", tail(&err))));
        }
        if err.contains("text read returned wrong bytes") {
            return Err(Failure::new("text read returned wrong bytes (freed or corrupted memory)", format!("{last_scn}\n{}", tail(&err))));
        }
        if err.contains("panicked at") {
            return Err(Failure::new("scenario panicked under Miri", format!("{last_scn}\n{}", tail(&err))));
        }
        if let Some(l) = err.lines().find(|l| l.starts_with("error: the main thread terminated") || l.starts_with("error: deadlock")) {
            return Err(Failure::new(format!("harness: {}", normalise(l)), tail(&err)));
        }
        inconclusive(&format!("cargo miri run failed for another reason: {}", tail(&err)))
    }

    fn tail(s: &str) -> String {
        let v: Vec<&str> = s.lines().filter(|l| !l.trim().is_empty()).collect();
        v[v.len().saturating_sub(25)..].join("\n")
    }
}

pub fn run(ctx: &Ctx) -> ! {
    let mut rep = Report::new(ctx, "exploration");
    rep.crash_guard = true;
    crate::engine_assumptions(&mut rep);
    rep.assume(
        "memory-safety oracle = quarantining global allocator (freed blocks are poisoned with 0xDD and withheld from \
         reuse for the rest of the case; double free, leak, write-after-free, layout mismatch are detected) plus \
         content comparison on every read; ordering-strength bugs (e.g. Relaxed instead of Release on the decrement) \
         are outside what sequentially consistent interleavings can show",
    );
    let scripts = ctx.pick(600, 8_000);
    let iters = ctx.pick(200usize, 600);
    let rule = "script = 1-3 shared values (len 0-90 bytes, >22 = heap) x 2-4 tasks x 1-11 ops (clone from shared base, \
                clone own handle, read+compare, drop, move to another task, release base, yield), N seeded schedules each; \
                non-trivial = >=1 heap value and >=2 tasks that both clone and drop";
    rep.explore("text_random", rule, || case(3, false), scripts, move |c, i| check(c, i, iters));
    rep.explore("text_random_4tasks", rule, || case(4, false), scripts / 3, move |c, i| check(c, i, iters));
    if ctx.tier == vcommon::Tier::Thorough || ctx.is_replay() {
        rep.explore("text_pct", rule, || case(3, true), scripts / 2, move |c, i| check(c, i, iters));
    }
    rep.assume(
        "part miri_ordering: the real crate on real threads interpreted by Miri (nightly); Miri's data-race detector \
         (happens-before over the C++11 model incl. fences), borrow tracker, use-after-free / double-free detection and \
         end-of-run leak check are the oracle; schedules come from Miri's seeded scheduler (generated seed, preemption \
         rate 0/1/5/25 %, weak-memory emulation on or off)",
    );
    let mrule = "case = Miri seed x weak-memory emulation on/off x preemption rate x 1-6 scenarios; scenario = text of 0-80 bytes \
                 (>22 = heap) cloned into 2-4 threads running 0-6 ops (clone, read+compare, drop, send to / get from a shared \
                 pool, yield), main handle dropped before the joins / after the first / after all; non-trivial = a heap-backed \
                 scenario in which >=2 threads touch their handle";
    rep.explore("miri_ordering", mrule, miri::case, ctx.pick(64, 1200), miri::check);
    crate::finish(rep)
}
