//! C33: shared text storage is memory safe across threads.
//!
//! Instrumented copy of `aranya-policy-text/src/repr.rs` (the `ArcStr` reference count accesses
//! and the fence are scheduling points).  1–3 heap-backed `Repr` values are shared by 2–4 shuttle
//! tasks that run generated scripts of clone (from the shared base or from an own handle) / read and
//! compare / drop / move a handle to another task / release the shared base.
//!
//! Oracle: every read must return the bytes the value was created from (a freed block is poisoned
//! and never reused during the case, so a read of freed memory differs); after every operation the
//! number of live heap blocks must be >= the number of values that still have a handle (a block
//! freed while handles exist); at the end no block may be live (leak), none freed twice, none
//! written after free, none freed with a different layout.
use std::{
    cell::RefCell,
    sync::{Arc, Mutex as StdMutex},
};

use proptest::prelude::*;
use serde::{Deserialize, Serialize};
use vcommon::{CaseInfo, CheckResult, Ctx, Failure, Report};

use crate::{
    text_inst::repr::Repr,
    vsched::{self, RunCfg, qalloc},
};

#[derive(Clone, Debug, Serialize, Deserialize)]
pub enum Op {
    /// clone value #.0 from the shared base (if this task still holds the base)
    CloneBase(u8),
    /// clone own handle #.0
    Clone(u8),
    Read(u8),
    ReadBase(u8),
    Drop(u8),
    Send(u8, u8),
    Recv,
    DropBase,
    Yield,
}

#[derive(Clone, Debug, Serialize, Deserialize)]
pub struct Case {
    /// byte length of each shared value (> 22 = heap-backed)
    lens: Vec<u8>,
    tasks: Vec<Vec<Op>>,
    seed: u64,
    pct: u8,
}

fn content(v: usize, len: usize) -> String {
    (0..len).map(|i| (b'a' + ((i * 7 + v * 11) % 26) as u8) as char).collect()
}

struct Handle {
    v: usize,
    r: Repr,
}

#[derive(Default)]
struct H {
    /// per value: number of handles (incremented after a clone returned, decremented before a drop begins)
    handles: Vec<u32>,
    heap: Vec<bool>,
    clones: u64,
    reads: u64,
    drops: u64,
    moved: u64,
}

thread_local! {
    static HS: RefCell<H> = RefCell::new(H::default());
}

fn h<R>(f: impl FnOnce(&mut H) -> R) -> R {
    HS.with(|x| f(&mut x.borrow_mut()))
}

fn check_live(what: &str) {
    let need = h(|h| h.handles.iter().zip(&h.heap).filter(|(n, heap)| **n > 0 && **heap).count());
    let live = qalloc::live();
    if live < need {
        vsched::violation(
            "heap text freed while handles to it exist",
            format!("after {what}: {need} heap value(s) still have handles but only {live} block(s) are live"),
        );
    }
}

fn read(hd: &Handle, lens: &[u8], who: usize) {
    let want = content(hd.v, usize::from(lens[hd.v]));
    let got = hd.r.as_str().as_bytes();
    h(|h| h.reads += 1);
    if got != want.as_bytes() {
        vsched::violation(
            "text read returned wrong bytes (freed or corrupted memory)",
            format!("task {who}: value {} reads {:x?}, expected {want:?}", hd.v, &got[..got.len().min(16)]),
        );
    }
}

fn clone_of(r: &Repr, v: usize) -> Handle {
    let c = r.clone();
    h(|h| {
        h.handles[v] += 1;
        h.clones += 1;
    });
    check_live("clone");
    Handle { v, r: c }
}

fn drop_handle(hd: Handle) {
    h(|h| {
        h.handles[hd.v] -= 1;
        h.drops += 1;
    });
    drop(hd.r);
    check_live("drop");
}

struct Base {
    vals: Vec<Repr>,
}

fn drop_base(b: Arc<Base>) {
    if Arc::strong_count(&b) == 1 {
        // the values themselves go away now: one handle each
        let n = b.vals.len();
        for v in 0..n {
            h(|h| h.handles[v] -= 1);
        }
    }
    drop(b);
    check_live("release of the shared base");
}

fn body(case: &Case) -> Result<(), Failure> {
    let nv = case.lens.len();
    HS.with(|x| {
        *x.borrow_mut() = H {
            handles: vec![1; nv],
            heap: case.lens.iter().map(|l| usize::from(*l) > 22).collect(),
            ..H::default()
        }
    });
    let base = Arc::new(Base {
        vals: (0..nv)
            .map(|v| {
                let s = content(v, usize::from(case.lens[v]));
                qalloc::tracked(|| Repr::from_str(&s))
            })
            .collect(),
    });
    let heap_vals = case.lens.iter().filter(|l| usize::from(**l) > 22).count();
    if qalloc::live() != heap_vals {
        return Err(Failure::new(
            "harness: unexpected number of heap blocks after creating the values",
            format!("live {} expected {heap_vals}", qalloc::live()),
        ));
    }
    let n = case.tasks.len();
    let inboxes: Arc<Vec<StdMutex<Vec<Handle>>>> = Arc::new((0..n).map(|_| StdMutex::new(Vec::new())).collect());
    let lens = Arc::new(case.lens.clone());
    let mut hs = Vec::new();
    for (ti, script) in case.tasks.iter().enumerate() {
        let script = script.clone();
        let mut my_base = Some(Arc::clone(&base));
        let inboxes = Arc::clone(&inboxes);
        let lens = Arc::clone(&lens);
        hs.push(vsched::spawn(move || {
            let mut mine: Vec<Handle> = Vec::new();
            for op in &script {
                match *op {
                    Op::CloneBase(v) => {
                        if let Some(b) = &my_base {
                            let v = usize::from(v) % b.vals.len();
                            mine.push(clone_of(&b.vals[v], v));
                        }
                    }
                    Op::ReadBase(v) => {
                        if let Some(b) = &my_base {
                            let v = usize::from(v) % b.vals.len();
                            let want = content(v, usize::from(lens[v]));
                            if b.vals[v].as_str().as_bytes() != want.as_bytes() {
                                vsched::violation(
                                    "text read returned wrong bytes (freed or corrupted memory)",
                                    format!("task {ti}: base value {v} differs from {want:?}"),
                                );
                            }
                        }
                    }
                    Op::Clone(k) => {
                        if !mine.is_empty() {
                            let i = usize::from(k) % mine.len();
                            let c = clone_of(&mine[i].r, mine[i].v);
                            mine.push(c);
                        }
                    }
                    Op::Read(k) => {
                        if !mine.is_empty() {
                            let i = usize::from(k) % mine.len();
                            read(&mine[i], &lens, ti);
                        }
                    }
                    Op::Drop(k) => {
                        if !mine.is_empty() {
                            let i = usize::from(k) % mine.len();
                            drop_handle(mine.remove(i));
                        }
                    }
                    Op::Send(k, to) => {
                        if !mine.is_empty() && n > 1 {
                            let i = usize::from(k) % mine.len();
                            let dst = (ti + 1 + usize::from(to) % (n - 1)) % n;
                            inboxes[dst].lock().unwrap().push(mine.remove(i));
                            h(|h| h.moved += 1);
                            vsched::sched_point();
                        }
                    }
                    Op::Recv => {
                        let got = inboxes[ti].lock().unwrap().pop();
                        if let Some(x) = got {
                            read(&x, &lens, ti);
                            mine.push(x);
                        }
                    }
                    Op::DropBase => {
                        if let Some(b) = my_base.take() {
                            drop_base(b);
                        }
                    }
                    Op::Yield => vsched::sched_point(),
                }
            }
            // read everything once more, then let go
            for x in &mine {
                read(x, &lens, ti);
            }
            if let Some(b) = my_base.take() {
                drop_base(b);
            }
            for x in mine.drain(..) {
                drop_handle(x);
            }
        }));
    }
    drop_base(base);
    for hd in hs {
        if hd.join().is_err() {
            return Err(Failure::new("task panicked", "a task panicked".to_string()));
        }
    }
    for ib in inboxes.iter() {
        let v: Vec<Handle> = std::mem::take(&mut *ib.lock().unwrap());
        for x in v {
            read(&x, &lens, usize::MAX);
            drop_handle(x);
        }
    }
    let left = h(|h| h.handles.iter().sum::<u32>());
    if left != 0 {
        return Err(Failure::new("harness: handle bookkeeping is off", format!("{left} handles left")));
    }
    let sum = qalloc::finish_report();
    crate::c44::alloc_verdict(&sum)
}

fn check(case: &Case, info: &mut CaseInfo, iters: usize) -> CheckResult {
    let mut cfg = RunCfg::random(case.seed, iters);
    cfg.stack = 64 << 10;
    cfg.max_steps = 20_000;
    if case.pct > 0 {
        cfg.pct = Some(usize::from(case.pct));
    }
    thread_local! { static ACC: RefCell<[u64; 4]> = const { RefCell::new([0; 4]) }; }
    ACC.with(|a| *a.borrow_mut() = [0; 4]);
    let c = Arc::new(case.clone());
    let st = vsched::explore(&cfg, move || {
        let r = body(&c);
        h(|h| {
            ACC.with(|a| {
                let mut a = a.borrow_mut();
                a[0] += h.clones;
                a[1] += h.reads;
                a[2] += h.drops;
                a[3] += h.moved;
            })
        });
        r
    })?;
    let a = ACC.with(|a| *a.borrow());
    let heap = case.lens.iter().filter(|l| **l > 22).count();
    info.label(format!("heap_values={heap}"));
    info.label(format!("tasks={}", case.tasks.len()));
    if a[3] > 0 {
        info.label("handle_moved_between_tasks");
    }
    if st.step_bound > 0 {
        info.label("some_schedules_hit_step_bound");
    }
    // tasks that clone and drop the same heap value
    let mut cloners = 0;
    for t in &case.tasks {
        if t.iter().any(|o| matches!(o, Op::CloneBase(_) | Op::Clone(_))) && t.iter().any(|o| matches!(o, Op::Drop(_))) {
            cloners += 1;
        }
    }
    if cloners >= 2 {
        info.label("two_tasks_clone_and_drop");
    }
    if heap >= 1 && cloners >= 2 && a[0] > 0 && a[2] > 0 && st.completed > 0 {
        info.nontrivial();
    }
    Ok(())
}

fn op() -> impl Strategy<Value = Op> {
    prop_oneof![
        5 => any::<u8>().prop_map(Op::CloneBase),
        2 => any::<u8>().prop_map(Op::Clone),
        4 => any::<u8>().prop_map(Op::Read),
        1 => any::<u8>().prop_map(Op::ReadBase),
        5 => any::<u8>().prop_map(Op::Drop),
        1 => (any::<u8>(), any::<u8>()).prop_map(|(a, b)| Op::Send(a, b)),
        1 => Just(Op::Recv),
        2 => Just(Op::DropBase),
        1 => Just(Op::Yield),
    ]
}

fn case(max_tasks: usize, pct: bool) -> impl Strategy<Value = Case> {
    (
        prop::collection::vec(prop_oneof![6 => 23u8..=90, 1 => 0u8..=22], 1..=3),
        prop::collection::vec(prop::collection::vec(op(), 1..12), 2..=max_tasks),
        any::<u64>(),
        if pct { 1u8..=4 } else { 0u8..=0 },
    )
        .prop_map(|(lens, tasks, seed, pct)| Case { lens, tasks, seed, pct })
}

pub fn run(ctx: &Ctx) -> ! {
    let mut rep = Report::new(ctx, "exploration");
    crate::engine_assumptions(&mut rep);
    rep.assume(
        "memory-safety oracle = quarantining global allocator (freed blocks are poisoned with 0xDD and withheld from \
         reuse for the rest of the case; double free, leak, write-after-free, layout mismatch are detected) plus \
         content comparison on every read; ordering-strength bugs (e.g. Relaxed instead of Release on the decrement) \
         are outside what sequentially consistent interleavings can show",
    );
    let scripts = ctx.pick(600, 8_000);
    let iters = ctx.pick(200usize, 600);
    let rule = "script = 1-3 shared values (len 0-90 bytes, >22 = heap) x 2-4 tasks x 1-11 ops (clone from shared base, \
                clone own handle, read+compare, drop, move to another task, release base, yield), N seeded schedules each; \
                non-trivial = >=1 heap value and >=2 tasks that both clone and drop";
    rep.explore("text_random", rule, || case(3, false), scripts, move |c, i| check(c, i, iters));
    rep.explore("text_random_4tasks", rule, || case(4, false), scripts / 3, move |c, i| check(c, i, iters));
    if ctx.tier == vcommon::Tier::Thorough || ctx.is_replay() {
        rep.explore("text_pct", rule, || case(3, true), scripts / 2, move |c, i| check(c, i, iters));
    }
    crate::finish(rep)
}
