//! C43: the shared-memory mutex is exclusive and loses no wake-ups.
//!
//! The instrumented copy of `mutex.rs` (futex variant and `cas_mutex` variant) is driven by 2–4
//! shuttle tasks running generated lock/unlock scripts.  Oracle (independent of the lock's code):
//!  * a plain occupancy counter stored in the protected data: >1 inside the critical section =
//!    two holders at once; the protected total must equal the number of completed rounds;
//!  * every task must finish: if all unfinished tasks are blocked (shuttle's deadlock detection on
//!    the futex model) a waiter was not woken = lost wake-up;
//!  * executions that hit the step bound are inconclusive (liveness is only decided as "no
//!    deadlock and termination within the bound on the explored schedules").
use std::{cell::Cell, sync::Arc};

use proptest::prelude::*;
use serde::{Deserialize, Serialize};
use vcommon::{CaseInfo, CheckResult, Ctx, Failure, Report};

use crate::{
    afc_inst::vexport::{CasMutex, FutexMutex},
    vsched::{self, RunCfg},
};

#[derive(Clone, Debug, Serialize, Deserialize)]
pub struct Round {
    /// scheduling points before calling lock()
    pre: u8,
    /// scheduling points inside the critical section
    inside: u8,
    /// spurious-return flags for the successive FUTEX_WAIT calls of this round
    spurious: Vec<bool>,
}

#[derive(Clone, Debug, Serialize, Deserialize)]
pub struct Case {
    /// 0 = futex variant, 1 = cas_mutex variant
    variant: u8,
    tasks: Vec<Vec<Round>>,
    /// seed of the schedule sequence
    seed: u64,
    /// PCT depth (0 = uniform random scheduler)
    pct: u8,
}

#[derive(Default)]
struct Protected {
    occ: u32,
    total: u64,
}

thread_local! {
    static HELD: Cell<bool> = const { Cell::new(false) };
    static CONTENDED: Cell<u64> = const { Cell::new(0) };
}

macro_rules! run_tasks {
    ($mutex:ident, $case:expr) => {{
        let case: &Case = $case;
        HELD.with(|h| h.set(false));
        let m = Arc::new($mutex::new(Protected::default()));
        let mut hs = Vec::new();
        for (ti, script) in case.tasks.iter().enumerate() {
            let m = Arc::clone(&m);
            let script = script.clone();
            hs.push(vsched::spawn(move || {
                for (ri, r) in script.iter().enumerate() {
                    for _ in 0..r.pre {
                        vsched::sched_point();
                    }
                    vsched::set_spurious(r.spurious.clone());
                    if HELD.with(|h| h.get()) {
                        CONTENDED.with(|c| c.set(c.get() + 1));
                    }
                    let mut g = match m.lock() {
                        Ok(g) => g,
                        Err(e) => match e {},
                    };
                    g.occ += 1;
                    if g.occ != 1 {
                        vsched::violation(
                            "two holders inside the critical section",
                            format!("task {ti} round {ri}: occupancy {} after acquiring", g.occ),
                        );
                    }
                    HELD.with(|h| h.set(true));
                    for _ in 0..r.inside {
                        vsched::sched_point();
                        if g.occ != 1 {
                            vsched::violation(
                                "two holders inside the critical section",
                                format!("task {ti} round {ri}: occupancy {} while holding", g.occ),
                            );
                        }
                    }
                    g.occ -= 1;
                    g.total += 1;
                    HELD.with(|h| h.set(false));
                    drop(g);
                }
            }));
        }
        for h in hs {
            if h.join().is_err() {
                return Err(Failure::new("task panicked", "a locker task panicked".to_string()));
            }
        }
        let want: u64 = case.tasks.iter().map(|t| t.len() as u64).sum();
        let g = match m.lock() {
            Ok(g) => g,
            Err(e) => match e {},
        };
        let (occ, total) = (g.occ, g.total);
        drop(g);
        if occ != 0 || total != want {
            return Err(Failure::new(
                "protected counter is wrong after all tasks finished",
                format!("occupancy {occ}, total {total}, expected total {want}"),
            ));
        }
        Ok(())
    }};
}

fn body(case: &Case) -> Result<(), Failure> {
    if case.variant == 0 { run_tasks!(FutexMutex, case) } else { run_tasks!(CasMutex, case) }
}

fn check(case: &Case, info: &mut CaseInfo, iters: usize) -> CheckResult {
    CONTENDED.with(|c| c.set(0));
    let mut cfg = RunCfg::random(case.seed, iters);
    cfg.stack = 64 << 10;
    cfg.max_steps = 20_000;
    if case.pct > 0 {
        cfg.pct = Some(usize::from(case.pct));
    }
    let c = Arc::new(case.clone());
    let st = vsched::explore(&cfg, move || body(&c))?;
    let contended = CONTENDED.with(|c| c.get());
    info.label(if case.variant == 0 { "futex" } else { "cas" });
    info.label(format!("tasks={}", case.tasks.len()));
    if st.step_bound > 0 {
        info.label("some_schedules_hit_step_bound");
    }
    if st.exec.futex_wait_blocked > 0 {
        info.label("waiter_blocked");
    }
    if st.exec.futex_wake_woke > 0 {
        info.label("waiter_woken_by_unlock");
    }
    if st.exec.futex_wait_eagain > 0 {
        info.label("wait_returned_eagain");
    }
    if st.exec.futex_wait_spurious > 0 {
        info.label("spurious_wakeup_taken");
    }
    if st.exec.futex_wake_calls > st.exec.futex_wake_woke {
        info.label("wake_found_no_waiter");
    }
    if contended > 0 {
        info.label("lock_called_while_held");
    }
    let nontrivial = if case.variant == 0 {
        st.exec.futex_wait_blocked > 0 && st.exec.futex_wake_woke > 0
    } else {
        contended > 0
    };
    if nontrivial && st.completed > 0 {
        info.nontrivial();
    }
    info.label(format!("schedules_completed~{}", bucket(st.completed)));
    Ok(())
}

fn bucket(n: u64) -> &'static str {
    match n {
        0 => "0",
        1..=99 => "<100",
        100..=999 => "<1000",
        _ => ">=1000",
    }
}

fn round() -> impl Strategy<Value = Round> {
    (0u8..3, 0u8..3, prop::collection::vec(any::<bool>(), 0..3)).prop_map(|(pre, inside, spurious)| Round {
        pre,
        inside,
        spurious,
    })
}

fn case(variant: u8, max_tasks: usize, pct: bool) -> impl Strategy<Value = Case> {
    (
        prop::collection::vec(prop::collection::vec(round(), 1..=4), 2..=max_tasks),
        any::<u64>(),
        if pct { 1u8..=4 } else { 0u8..=0 },
    )
        .prop_map(move |(tasks, seed, pct)| Case {
            variant,
            tasks,
            seed,
            pct,
        })
}

pub fn run(ctx: &Ctx) -> ! {
    let mut rep = Report::new(ctx, "exploration");
    rep.crash_guard = true;
    crate::engine_assumptions(&mut rep);
    rep.assume(
        "futex model: FUTEX_WAIT = atomically (w.r.t. FUTEX_WAKE) `if *addr != val return EAGAIN else block`, may \
         return spuriously where the generated script says so; FUTEX_WAKE(n) unblocks <= n waiters chosen by the \
         schedule; `eventually acquires` is decided as: no deadlock and every task finishes within the step bound",
    );
    let scripts = ctx.pick(600, 6_000);
    let iters = ctx.pick(300usize, 1_000);
    let rule = "script = 2-4 tasks x 1-4 lock/unlock rounds (0-2 scheduling points before lock and inside the critical \
                section, spurious futex returns), each run under N seeded random schedules; non-trivial = some schedule \
                had a waiter blocked in FUTEX_WAIT and woken by an unlock (futex variant) / lock() called while another \
                task held the lock (cas variant)";
    rep.explore("futex_random", rule, || case(0, 3, false), scripts, move |c, i| check(c, i, iters));
    rep.explore("futex_random_4tasks", rule, || case(0, 4, false), scripts / 4, move |c, i| check(c, i, iters));
    rep.explore("cas_random", rule, || case(1, 3, false), scripts / 2, move |c, i| check(c, i, iters));
    if ctx.tier == vcommon::Tier::Thorough || ctx.is_replay() {
        rep.explore("futex_pct", rule, || case(0, 3, true), scripts / 2, move |c, i| check(c, i, iters));
        rep.explore("cas_pct", rule, || case(1, 3, true), scripts / 4, move |c, i| check(c, i, iters));
    }
    crate::finish(rep)
}
