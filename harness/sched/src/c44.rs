//! C44: channel loans are exclusive and freed exactly once.
//!
//! Instrumented copy of `memory/lender.rs` (every access to the `BiArc` state flag is a scheduling
//! point).  2–3 shuttle tasks run generated scripts of lend / shared / get_ref / get_mut / drop
//! loan / move loan to another task / drop (their reference to) the lender.  The `Lender` is shared
//! by `std::sync::Arc` exactly as `memory::State` shares it behind its map: `lend`/`shared` run
//! concurrently through `&Lender`; the lender itself is dropped by whichever task gives up the last
//! reference, at a schedule-dependent point, concurrently with loan operations of the other tasks.
//!
//! Oracle (written from the property statement; harness-side bookkeeping, not the flag under test):
//!  * `lend` returning `Some` while another loan is live (its drop has not begun) = two live handles;
//!    `lend` returning `None` although no loan exists and no other lend overlaps = refused wrongly;
//!  * `get_ref/get_mut` that starts after the lender's drop returned must give `None`; one that
//!    ends before the lender's drop began must give `Some` with intact payload contents;
//!  * payload drop counters: S and X dropped exactly once, and only after the lender's drop began
//!    and no loan is live; quarantining allocator: no double free, leak, write-after-free, wrong
//!    layout; payload contents are compared on every access (poison = read of freed memory).
use std::{
    cell::RefCell,
    sync::{Arc, Mutex as StdMutex},
};

use proptest::prelude::*;
use serde::{Deserialize, Serialize};
use vcommon::{CaseInfo, CheckResult, Ctx, Failure, Report};

use crate::{
    afc_inst::vexport::{Lender, Loan},
    vsched::{self, RunCfg, qalloc},
};

#[derive(Clone, Debug, Serialize, Deserialize)]
pub enum Op {
    Lend,
    Shared,
    GetRef(u8),
    GetMut(u8),
    DropLoan(u8),
    /// move own loan #.0 to the inbox of task (me + 1 + .1) % ntasks
    Send(u8, u8),
    Recv,
    DropLender,
    Yield,
}

#[derive(Clone, Debug, Serialize, Deserialize)]
pub struct TaskScript {
    has_lender: bool,
    ops: Vec<Op>,
    /// at task end: drop remaining loans before (true) or after (false) the lender reference
    loans_first: bool,
}

#[derive(Clone, Debug, Serialize, Deserialize)]
pub struct Case {
    tasks: Vec<TaskScript>,
    seed: u64,
    pct: u8,
}

const TOKEN: u8 = 0xA5;
const S_ID: u64 = 0x5348_4152_4544_0001;
const X_MAGIC: u64 = 0x4558_434c_5553_0002;

struct SPay {
    token: Box<[u8; 24]>,
    id: u64,
}

struct XPay {
    magic: u64,
    counter: u64,
    buf: Vec<u8>,
}

impl Drop for SPay {
    fn drop(&mut self) {
        payload_dropped(true);
    }
}

impl Drop for XPay {
    fn drop(&mut self) {
        payload_dropped(false);
    }
}

type L = Lender<SPay, XPay>;
type Ln = Loan<SPay, XPay>;

#[derive(Default)]
struct H {
    /// loans handed out whose drop has not begun
    live: i32,
    /// loans handed out whose drop has not returned
    outstanding: i32,
    lend_inflight: u32,
    lend_started: u64,
    lender_drop_started: bool,
    lender_drop_done: bool,
    s_drops: u32,
    x_drops: u32,
    muts: u64,
    // statistics
    concurrent_lend: u64,
    lend_ok: u64,
    lend_refused: u64,
    revoked_seen: u64,
    access_ok: u64,
    freed_by_loan: u64,
    freed_by_lender: u64,
    moved: u64,
    get_during_lender_drop: u64,
}

thread_local! {
    static HS: RefCell<H> = RefCell::new(H::default());
}

fn h<R>(f: impl FnOnce(&mut H) -> R) -> R {
    HS.with(|x| f(&mut x.borrow_mut()))
}

fn payload_dropped(is_s: bool) {
    let bad = h(|h| {
        if is_s {
            h.s_drops += 1;
        } else {
            h.x_drops += 1;
        }
        if !h.lender_drop_started || h.live != 0 {
            Some((h.lender_drop_started, h.live))
        } else {
            None
        }
    });
    if let Some((started, live)) = bad {
        vsched::violation(
            "shared data dropped while the entry or a handle still exists",
            format!("payload {} dropped: lender drop started={started}, live loans={live}", if is_s { "S" } else { "X" }),
        );
    }
}

fn check_s(s: &SPay, what: &str) {
    // the id is checked first: if the block was freed (poisoned) the `token` pointer must not be followed
    if s.id != S_ID {
        vsched::violation(
            "payload read returned wrong bytes (freed or corrupted memory)",
            format!("{what}: S.id={:#x}", s.id),
        );
    } else if s.token.iter().any(|b| *b != TOKEN) {
        vsched::violation(
            "payload read returned wrong bytes (freed or corrupted memory)",
            format!("{what}: S.token={:x?}", &s.token[..]),
        );
    }
}

fn drop_loan(l: Ln) {
    h(|h| h.live -= 1);
    let before = h(|h| h.s_drops);
    drop(l);
    h(|h| {
        h.outstanding -= 1;
        if h.s_drops > before {
            h.freed_by_loan += 1;
        }
    });
}

fn drop_lender_ref(l: Arc<L>) {
    let last = Arc::strong_count(&l) == 1;
    if last {
        h(|h| h.lender_drop_started = true);
    }
    let before = h(|h| h.s_drops);
    drop(l);
    if last {
        h(|h| {
            h.lender_drop_done = true;
            if h.s_drops > before {
                h.freed_by_lender += 1;
            }
        });
    }
}

fn access(loan: &mut Ln, mutate: bool, who: usize) {
    let done_at_start = h(|h| h.lender_drop_done);
    let started_at_start = h(|h| h.lender_drop_started);
    let got = {
        if mutate {
            match loan.get_mut() {
                Some((s, x)) => {
                    check_s(s, "get_mut");
                    let want = h(|h| h.muts);
                    if x.magic != X_MAGIC || x.counter != want || x.buf.len() != 16 || x.buf.iter().any(|b| *b != TOKEN) {
                        vsched::violation(
                            "payload read returned wrong bytes (freed or corrupted memory)",
                            format!("get_mut: X.magic={:#x} counter={} want {want}", x.magic, x.counter),
                        );
                    }
                    x.counter = x.counter.wrapping_add(1);
                    h(|h| h.muts += 1);
                    true
                }
                None => false,
            }
        } else {
            match loan.get_ref() {
                Some((s, x)) => {
                    check_s(s, "get_ref");
                    let want = h(|h| h.muts);
                    if x.magic != X_MAGIC || x.counter != want {
                        vsched::violation(
                            "payload read returned wrong bytes (freed or corrupted memory)",
                            format!("get_ref: X.magic={:#x} counter={} want {want}", x.magic, x.counter),
                        );
                    }
                    true
                }
                None => false,
            }
        }
    };
    let started_at_end = h(|h| h.lender_drop_started);
    if got {
        h(|h| h.access_ok += 1);
        if done_at_start {
            vsched::violation(
                "handle still has access after its entry was removed",
                format!("task {who}: get_{} returned Some although the lender's drop had returned before the call", if mutate { "mut" } else { "ref" }),
            );
        }
    } else {
        h(|h| h.revoked_seen += 1);
        if !started_at_end {
            vsched::violation(
                "handle lost access while its entry exists",
                format!("task {who}: get_{} returned None although the lender had not begun to drop", if mutate { "mut" } else { "ref" }),
            );
        }
    }
    if !started_at_start && started_at_end {
        h(|h| h.get_during_lender_drop += 1);
    }
}

fn do_lend(l: &L, loans: &mut Vec<Ln>, ti: usize) {
    let (out0, infl0, seq0) = h(|h| {
        if h.lend_inflight > 0 {
            h.concurrent_lend += 1;
        }
        h.lend_inflight += 1;
        h.lend_started += 1;
        (h.outstanding, h.lend_inflight - 1, h.lend_started)
    });
    let r = l.lend();
    let (live, seq1) = h(|h| {
        h.lend_inflight -= 1;
        (h.live, h.lend_started)
    });
    match r {
        Some(loan) => {
            if live != 0 {
                vsched::violation(
                    "second live loan handed out",
                    format!("task {ti}: lend() returned Some while {live} loan(s) are live"),
                );
            }
            h(|h| {
                h.live += 1;
                h.outstanding += 1;
                h.lend_ok += 1;
            });
            loans.push(loan);
        }
        None => {
            h(|h| h.lend_refused += 1);
            if out0 == 0 && infl0 == 0 && seq1 == seq0 {
                vsched::violation(
                    "lend refused although no loan exists",
                    format!("task {ti}: lend() returned None; no loan outstanding and no overlapping lend"),
                );
            }
        }
    }
}

fn body(case: &Case) -> Result<(), Failure> {
    HS.with(|x| *x.borrow_mut() = H::default());
    let n = case.tasks.len();
    let lender: Arc<L> = qalloc::tracked(|| {
        Arc::new(Lender::new(
            SPay {
                token: Box::new([TOKEN; 24]),
                id: S_ID,
            },
            XPay {
                magic: X_MAGIC,
                counter: 0,
                buf: vec![TOKEN; 16],
            },
        ))
    });
    let inboxes: Arc<Vec<StdMutex<Vec<Ln>>>> = Arc::new((0..n).map(|_| StdMutex::new(Vec::new())).collect());
    let mut hs = Vec::new();
    for (ti, script) in case.tasks.iter().enumerate() {
        let script = script.clone();
        let mut my_lender = if script.has_lender { Some(Arc::clone(&lender)) } else { None };
        let inboxes = Arc::clone(&inboxes);
        hs.push(vsched::spawn(move || {
            let mut loans: Vec<Ln> = Vec::new();
            for op in &script.ops {
                match *op {
                    Op::Lend => {
                        if let Some(l) = &my_lender {
                            do_lend(l, &mut loans, ti);
                        }
                    }
                    Op::Shared => {
                        if let Some(l) = &my_lender {
                            let s = l.shared();
                            check_s(s, "Lender::shared");
                        }
                    }
                    Op::GetRef(k) | Op::GetMut(k) => {
                        if loans.is_empty() {
                            if let Some(l) = &my_lender {
                                do_lend(l, &mut loans, ti);
                            }
                        }
                        if !loans.is_empty() {
                            let i = usize::from(k) % loans.len();
                            access(&mut loans[i], matches!(op, Op::GetMut(_)), ti);
                        }
                    }
                    Op::DropLoan(k) => {
                        if !loans.is_empty() {
                            let i = usize::from(k) % loans.len();
                            drop_loan(loans.remove(i));
                        }
                    }
                    Op::Send(k, to) => {
                        if loans.is_empty() {
                            if let Some(l) = &my_lender {
                                do_lend(l, &mut loans, ti);
                            }
                        }
                        if !loans.is_empty() && n > 1 {
                            let i = usize::from(k) % loans.len();
                            let dst = (ti + 1 + usize::from(to) % (n - 1)) % n;
                            let l = loans.remove(i);
                            inboxes[dst].lock().unwrap().push(l);
                            h(|h| h.moved += 1);
                            vsched::sched_point();
                        }
                    }
                    Op::Recv => {
                        let got = inboxes[ti].lock().unwrap().pop();
                        if let Some(l) = got {
                            loans.push(l);
                        }
                    }
                    Op::DropLender => {
                        if let Some(l) = my_lender.take() {
                            drop_lender_ref(l);
                        }
                    }
                    Op::Yield => vsched::sched_point(),
                }
            }
            if script.loans_first {
                for l in loans.drain(..) {
                    drop_loan(l);
                }
            }
            if let Some(l) = my_lender.take() {
                drop_lender_ref(l);
            }
            for l in loans.drain(..) {
                drop_loan(l);
            }
        }));
    }
    drop_lender_ref(lender);
    for hd in hs {
        if hd.join().is_err() {
            return Err(Failure::new("task panicked", "a task panicked".to_string()));
        }
    }
    // loans left in inboxes are dropped last
    for ib in inboxes.iter() {
        let v: Vec<Ln> = std::mem::take(&mut *ib.lock().unwrap());
        for l in v {
            drop_loan(l);
        }
    }
    let (s, x, done) = h(|h| (h.s_drops, h.x_drops, h.lender_drop_done));
    let sum = qalloc::finish_report();
    if !done {
        return Err(Failure::new("harness: lender never dropped", String::new()));
    }
    if s != 1 || x != 1 {
        return Err(Failure::new(
            "shared data not dropped exactly once",
            format!("after the lender and every loan are gone: S dropped {s}x, X dropped {x}x"),
        ));
    }
    alloc_verdict(&sum)
}

pub fn alloc_verdict(sum: &qalloc::Summary) -> Result<(), Failure> {
    if sum.overflow {
        return Err(Failure::new("harness: allocation table overflow", format!("{sum:?}")));
    }
    if sum.double_free > 0 {
        return Err(Failure::new("double free", format!("a block of {} bytes was freed twice; {sum:?}", sum.double_free_size)));
    }
    if sum.wrong_layout > 0 {
        return Err(Failure::new("dealloc with a layout different from alloc", format!("{sum:?}")));
    }
    if sum.write_after_free > 0 {
        return Err(Failure::new("write to freed memory", format!("{sum:?}")));
    }
    if !sum.leaked.is_empty() {
        return Err(Failure::new("memory leak", format!("blocks never freed (sizes): {:?}", sum.leaked)));
    }
    Ok(())
}

fn check(case: &Case, info: &mut CaseInfo, iters: usize) -> CheckResult {
    let mut cfg = RunCfg::random(case.seed, iters);
    cfg.stack = 64 << 10;
    cfg.max_steps = 20_000;
    if case.pct > 0 {
        cfg.pct = Some(usize::from(case.pct));
    }
    // statistics are accumulated over all schedules of the case
    thread_local! { static ACC: RefCell<[u64; 9]> = const { RefCell::new([0; 9]) }; }
    ACC.with(|a| *a.borrow_mut() = [0; 9]);
    let c = Arc::new(case.clone());
    let st = vsched::explore(&cfg, move || {
        let r = body(&c);
        h(|h| {
            ACC.with(|a| {
                let mut a = a.borrow_mut();
                a[0] += h.concurrent_lend;
                a[1] += h.lend_ok;
                a[2] += h.lend_refused;
                a[3] += h.revoked_seen;
                a[4] += h.access_ok;
                a[5] += h.freed_by_loan;
                a[6] += h.freed_by_lender;
                a[7] += h.moved;
                a[8] += h.get_during_lender_drop;
            })
        });
        r
    })?;
    let a = ACC.with(|a| *a.borrow());
    let names = [
        "concurrent_lend",
        "lend_ok",
        "lend_refused",
        "access_revoked_seen",
        "access_ok",
        "data_freed_by_loan_drop",
        "data_freed_by_lender_drop",
        "loan_moved_between_tasks",
        "access_overlapping_lender_drop",
    ];
    for (i, nme) in names.iter().enumerate() {
        if a[i] > 0 {
            info.label(*nme);
        }
    }
    if st.step_bound > 0 {
        info.label("some_schedules_hit_step_bound");
    }
    info.label(format!("tasks={}", case.tasks.len()));
    // non-trivial: a loan existed and (a lend was refused, or an access saw the revocation / overlapped the lender's drop)
    if a[1] > 0 && (a[2] > 0 || a[3] > 0 || a[8] > 0) && st.completed > 0 {
        info.nontrivial();
    }
    Ok(())
}

fn op() -> impl Strategy<Value = Op> {
    prop_oneof![
        5 => Just(Op::Lend),
        1 => Just(Op::Shared),
        4 => any::<u8>().prop_map(Op::GetRef),
        4 => any::<u8>().prop_map(Op::GetMut),
        3 => any::<u8>().prop_map(Op::DropLoan),
        1 => (any::<u8>(), any::<u8>()).prop_map(|(a, b)| Op::Send(a, b)),
        1 => Just(Op::Recv),
        3 => Just(Op::DropLender),
        1 => Just(Op::Yield),
    ]
}

fn case(max_tasks: usize, pct: bool) -> impl Strategy<Value = Case> {
    (
        prop::collection::vec(
            (prop::bool::weighted(0.7), prop::collection::vec(op(), 1..12), any::<bool>()).prop_map(|(has_lender, ops, loans_first)| {
                TaskScript {
                    has_lender,
                    ops,
                    loans_first,
                }
            }),
            2..=max_tasks,
        ),
        any::<u64>(),
        if pct { 1u8..=4 } else { 0u8..=0 },
    )
        .prop_map(|(mut tasks, seed, pct)| {
            // at least one task can lend
            if !tasks.iter().any(|t| t.has_lender) {
                tasks[0].has_lender = true;
            }
            Case { tasks, seed, pct }
        })
}

pub fn run(ctx: &Ctx) -> ! {
    let mut rep = Report::new(ctx, "exploration");
    rep.crash_guard = true;
    crate::engine_assumptions(&mut rep);
    rep.assume(
        "the lender is shared between tasks by std::sync::Arc (as memory::State shares it behind its map): lend/shared \
         run concurrently through &Lender, the lender is dropped by the task that releases the last reference; \
         memory-safety oracle = quarantining allocator + payload drop counters + content comparison on every access",
    );
    let scripts = ctx.pick(600, 8_000);
    let iters = ctx.pick(200usize, 600);
    let rule = "script = 2-3 tasks x 1-11 ops (lend, shared, get_ref, get_mut, drop loan, move loan to another task, drop \
                lender reference, yield), each run under N seeded schedules; non-trivial = a loan was handed out and, in some schedule, a lend was refused or an access \
                returned None (revoked) or overlapped the lender's drop; get/send on an empty loan list first try to lend";
    rep.explore("lender_random", rule, || case(3, false), scripts, move |c, i| check(c, i, iters));
    rep.explore("lender_random_2tasks", rule, || case(2, false), scripts / 2, move |c, i| check(c, i, iters));
    if ctx.tier == vcommon::Tier::Thorough || ctx.is_replay() {
        rep.explore("lender_pct", rule, || case(3, true), scripts / 2, move |c, i| check(c, i, iters));
    }
    crate::finish(rep)
}
