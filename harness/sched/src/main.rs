//! vh-sched: schedule-controlled concurrency checks (C33, C40–C44).  See DESIGN.md §0.4 and
//! `build.rs` (generation of the instrumented source copies) and `vsched.rs` (the runtime they
//! are compiled against).
extern crate alloc;

// `pub mod afc_inst` / `pub mod text_inst` (instrumented copies, generated) + INST_MANIFEST
include!(concat!(env!("OUT_DIR"), "/inst_root.rs"));

mod afcprops;
mod afct;
mod c33;
mod c43;
mod c44;
mod vsched;

/// AFC driver + oracle instantiated against the real crate (sequential parts).
#[allow(dead_code, unused_imports)]
mod real {
    use aranya_fast_channels as afc;
    include!("afcdrv.rs");
}

/// AFC driver + oracle instantiated against the instrumented copy (concurrent parts).
#[allow(dead_code, unused_imports)]
mod inst {
    use crate::afc_inst as afc;
    include!("afcdrv.rs");
}

#[global_allocator]
static GLOBAL: vsched::qalloc::Quarantine = vsched::qalloc::Quarantine;

fn main() {
    let ctx = vcommon::Ctx::from_args();
    ctx.watchdog(ctx.pick(900, 7200));
    quiet_engine_stderr(&ctx);
    match ctx.prop.as_str() {
        "C33" => c33::run(&ctx),
        "C40" | "C41" | "C42" => afcprops::run(&ctx, &ctx.prop),
        "C43" => c43::run(&ctx),
        "C44" => c44::run(&ctx),
        p => {
            println!("INCONCLUSIVE vh-sched does not serve {p}");
            std::process::exit(2);
        }
    }
}

/// Records how many schedules ran / were cut off by the step bound, and turns the run into
/// "inconclusive" (exit 2, never a violation) if more than 1% of them were cut off.
pub fn finish(mut rep: vcommon::Report<'_>) -> ! {
    use std::sync::atomic::Ordering::Relaxed;
    let n = vsched::TOTAL_SCHEDULES.load(Relaxed);
    let cut = vsched::TOTAL_STEP_BOUND.load(Relaxed);
    if let Some(p) = rep.parts.last_mut() {
        p.extra.insert("engine_schedules_total".into(), vcommon::serde_json::json!(n));
        p.extra.insert("engine_schedules_cut_by_step_bound".into(), vcommon::serde_json::json!(cut));
    }
    println!("engine: {n} schedules run, {cut} cut off by the step bound");
    let violated = rep.parts.iter().any(|p| p.violation.is_some());
    if !violated && !rep.ctx.is_replay() && cut * 100 > n {
        println!("INCONCLUSIVE property={} {cut} of {n} schedules hit the step bound", rep.ctx.prop);
        std::process::exit(2);
    }
    rep.finish()
}

/// Common assumptions of every part that runs on the schedule-controlled engine.
pub fn engine_assumptions(rep: &mut vcommon::Report<'_>) {
    rep.assume(
        "schedule-controlled engine: the checked code is a textual copy of /repo's source with atomics, the futex \
         syscall, sched_yield/spin_loop and std::sync::Mutex routed to the shuttle scheduler (substitution list \
         asserted at build time); interleavings are explored at the granularity of these operations under \
         sequential consistency only (no weak-memory reorderings)",
    );
    rep.assume(format!(
        "plain (non-atomic) memory is only observed at scheduling points: a data race on non-atomic data that needs \
         preemption between two ordinary loads/stores is not visible to this engine; POSIX shm objects of the instrumented \
         copy are modelled as one process-memory block per object. Instrumentation manifest (substitution, expected count): {}",
        INST_MANIFEST.replace('\n', " | ")
    ));
    rep.assume(
        "schedules are sampled (seeded uniform-random scheduler, PCT in the thorough tier), not enumerated; \
         executions cut off by the step bound are counted as inconclusive, never as violations",
    );
}

/// shuttle prints a few lines to stderr for every failing execution (also while a failure is
/// shrunk: thousands of times).  Outside replay mode they go to a log file in the temp dir (removed at once, the open descriptor keeps it);
/// everything the driver reports is on stdout.
fn quiet_engine_stderr(ctx: &vcommon::Ctx) {
    if ctx.is_replay() || std::env::var_os("VH_KEEP_STDERR").is_some() {
        return;
    }
    let path = std::env::temp_dir().join(format!("vh-sched-{}-{}.stderr.log", ctx.prop, std::process::id()));
    if let Ok(f) = std::fs::File::create(&path) {
        use std::os::fd::AsRawFd;
        // SAFETY: plain dup2 of two open descriptors.
        unsafe { libc::dup2(f.as_raw_fd(), 2) };
        let _ = std::fs::remove_file(&path);
    }
}
