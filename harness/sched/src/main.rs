//! vh-sched: schedule-controlled concurrency checks (C33, C40–C44).  See DESIGN.md §0.4 and
//! `build.rs` (generation of the instrumented source copies) and `vsched.rs` (the runtime they
//! are compiled against).
extern crate alloc;

// `pub mod afc_inst` / `pub mod text_inst` (instrumented copies, generated) + INST_MANIFEST
include!(concat!(env!("OUT_DIR"), "/inst_root.rs"));

mod c33;
mod c43;
mod c44;
mod vsched;

#[global_allocator]
static GLOBAL: vsched::qalloc::Quarantine = vsched::qalloc::Quarantine;

fn main() {
    let ctx = vcommon::Ctx::from_args();
    ctx.watchdog(ctx.pick(900, 7200));
    match ctx.prop.as_str() {
        "C33" => c33::run(&ctx),
        "C43" => c43::run(&ctx),
        "C44" => c44::run(&ctx),
        p => {
            println!("INCONCLUSIVE vh-sched does not serve {p}");
            std::process::exit(2);
        }
    }
}

/// Common assumptions of every part that runs on the schedule-controlled engine.
pub fn engine_assumptions(rep: &mut vcommon::Report<'_>) {
    rep.assume(
        "schedule-controlled engine: the checked code is a textual copy of /repo's source with atomics, the futex \
         syscall, sched_yield/spin_loop and std::sync::Mutex routed to the shuttle scheduler (substitution list \
         asserted at build time); interleavings are explored at the granularity of these operations under \
         sequential consistency only (no weak-memory reorderings)",
    );
    rep.assume(
        "schedules are sampled (seeded uniform-random scheduler, PCT in the thorough tier), not enumerated; \
         executions cut off by the step bound are counted as inconclusive, never as violations",
    );
}
