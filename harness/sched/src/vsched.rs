//! vsched: the schedule-controlled runtime the instrumented source copies are compiled against.
//!
//! * `atomic`  – `#[repr(transparent)]` wrappers over the REAL core atomics; every operation is
//!   preceded by a shuttle scheduling point (so every atomic access is a possible context switch and
//!   the explored behaviours are the sequentially consistent interleavings of the atomic accesses).
//! * `futex`   – model of `syscall(SYS_futex, …)` for FUTEX_WAIT / FUTEX_WAKE on shuttle primitives.
//! * `sync`    – `std::sync::Mutex` replacement on `shuttle::sync::Mutex`.
//! * `qalloc`  – quarantining global allocator (memory-safety oracle).
//! * `explore` – runs a body under N seeded shuttle schedules and classifies the outcome.
//!
//! All shuttle tasks of one `Runner::run` are coroutines on the calling OS thread, so per-execution
//! bookkeeping lives in plain `thread_local!`s of that OS thread (one harness worker = one OS thread).

#![allow(dead_code)]

use std::cell::{Cell, RefCell};

use vcommon::Failure;

// ---------------------------------------------------------------------------------------------
// per-OS-thread execution state

#[derive(Default, Clone, Debug)]
pub struct ExecStats {
    pub futex_wait_calls: u64,
    pub futex_wait_blocked: u64,
    pub futex_wait_eagain: u64,
    pub futex_wait_spurious: u64,
    pub futex_wake_calls: u64,
    pub futex_wake_woke: u64,
    pub sched_points: u64,
}

thread_local! {
    static IN_EXEC: Cell<bool> = const { Cell::new(false) };
    static VIOLATION: RefCell<Option<Failure>> = const { RefCell::new(None) };
    static SOFT: RefCell<Option<Failure>> = const { RefCell::new(None) };
    static STATS: RefCell<ExecStats> = RefCell::new(ExecStats::default());
    static FUTEX: RefCell<Option<std::sync::Arc<futex::Model>>> = const { RefCell::new(None) };
    /// spurious-return scripts: per shuttle task id, flags consumed by successive FUTEX_WAIT calls
    static SPURIOUS: RefCell<Vec<(usize, Vec<bool>, usize)>> = const { RefCell::new(Vec::new()) };
    /// A shuttle atomic used only to obtain a *non-yielding* scheduling point (`thread::switch`).
    static SWITCH: shuttle::sync::atomic::AtomicU8 = const { shuttle::sync::atomic::AtomicU8::new(0) };
}

/// Records the first violation of the current case (later ones are dropped).
pub fn violation(sig: &str, detail: String) {
    qalloc::untracked(|| {
        VIOLATION.with(|v| {
            let mut v = v.borrow_mut();
            if v.is_none() {
                // copy into fresh (untracked) allocations: `detail` may have been built inside a tracked region
                *v = Some(Failure::new(sig.to_string(), detail.as_str().to_string()));
            }
        });
        drop(detail);
    });
}

pub fn clear_violation() {
    VIOLATION.with(|v| *v.borrow_mut() = None);
    SOFT.with(|v| *v.borrow_mut() = None);
}

/// The first hard violation, else the first soft one.
pub fn take_violation() -> Option<Failure> {
    let hard = VIOLATION.with(|v| v.borrow_mut().take());
    let soft = SOFT.with(|v| v.borrow_mut().take());
    hard.or(soft)
}

/// Records a deviation that does not stop the case: the script keeps running (so that a listed
/// known finding does not hide a different violation later in the same case); it is reported at
/// the end of the case only if no hard violation was recorded.
pub fn soft_violation(sig: &str, detail: String) {
    qalloc::untracked(|| {
        SOFT.with(|v| {
            let mut v = v.borrow_mut();
            if v.is_none() {
                *v = Some(Failure::new(sig.to_string(), detail.as_str().to_string()));
            }
        });
        drop(detail);
    });
}

pub fn has_violation() -> bool {
    VIOLATION.with(|v| v.borrow().is_some())
}

pub fn stats<R>(f: impl FnOnce(&mut ExecStats) -> R) -> R {
    STATS.with(|s| f(&mut s.borrow_mut()))
}

/// Index of the current shuttle task (0 = the execution's main task, spawned tasks 1, 2, … in spawn order).
pub fn me() -> usize {
    usize::from(shuttle::current::me())
}

/// Sets the spurious-return script of the calling task: the k-th FUTEX_WAIT it performs from now on
/// returns immediately (after the value check) iff `flags[k]`.
pub fn set_spurious(flags: Vec<bool>) {
    let id = me();
    SPURIOUS.with(|s| {
        let mut s = s.borrow_mut();
        s.retain(|e| e.0 != id);
        s.push((id, flags, 0));
    });
}

fn take_spurious() -> bool {
    let id = me();
    SPURIOUS.with(|s| {
        let mut s = s.borrow_mut();
        if let Some(e) = s.iter_mut().find(|e| e.0 == id) {
            let r = e.1.get(e.2).copied().unwrap_or(false);
            e.2 += 1;
            r
        } else {
            false
        }
    })
}

fn hooks_active() -> bool {
    IN_EXEC.with(|c| c.get()) && !std::thread::panicking()
}

/// A scheduling point that does not mark the task as yielding (what shuttle's own atomics do).
pub fn sched_point() {
    if !hooks_active() {
        return;
    }
    STATS.with(|s| s.borrow_mut().sched_points += 1);
    qalloc::untracked(|| {
        SWITCH.with(|a| {
            a.load(std::sync::atomic::Ordering::SeqCst);
        })
    });
}

/// `libc::sched_yield()` replacement.
///
/// # Safety
/// None required; `unsafe` only so that the substituted call site keeps its `unsafe { }` block.
pub unsafe fn sched_yield() -> libc::c_int {
    yield_now();
    0
}

/// `core::hint::spin_loop()` replacement.
pub fn spin_loop() {
    yield_now();
}

pub fn yield_now() {
    if !hooks_active() {
        return;
    }
    STATS.with(|s| s.borrow_mut().sched_points += 1);
    qalloc::untracked(shuttle::thread::yield_now);
}

// ---------------------------------------------------------------------------------------------
// atomics

pub mod atomic {
    pub use core::sync::atomic::Ordering;

    use super::sched_point;

    pub fn fence(order: Ordering) {
        sched_point();
        core::sync::atomic::fence(order);
    }

    macro_rules! int_atomic {
        ($name:ident, $t:ty) => {
            #[repr(transparent)]
            #[derive(Default)]
            pub struct $name(core::sync::atomic::$name);

            impl core::fmt::Debug for $name {
                fn fmt(&self, f: &mut core::fmt::Formatter<'_>) -> core::fmt::Result {
                    // no scheduling point: formatting is not an access the code under test performs
                    core::fmt::Debug::fmt(&self.0, f)
                }
            }

            impl $name {
                pub const fn new(v: $t) -> Self {
                    Self(core::sync::atomic::$name::new(v))
                }
                /// Reads the value without a scheduling point (harness-side observation only).
                pub fn peek(&self) -> $t {
                    self.0.load(Ordering::SeqCst)
                }
                pub fn load(&self, o: Ordering) -> $t {
                    sched_point();
                    self.0.load(o)
                }
                pub fn store(&self, v: $t, o: Ordering) {
                    sched_point();
                    self.0.store(v, o)
                }
                pub fn swap(&self, v: $t, o: Ordering) -> $t {
                    sched_point();
                    self.0.swap(v, o)
                }
                pub fn compare_exchange(&self, c: $t, n: $t, s: Ordering, f: Ordering) -> Result<$t, $t> {
                    sched_point();
                    self.0.compare_exchange(c, n, s, f)
                }
                pub fn compare_exchange_weak(&self, c: $t, n: $t, s: Ordering, f: Ordering) -> Result<$t, $t> {
                    sched_point();
                    // never fails spuriously here; spurious failure is only a retry of the same loop
                    self.0.compare_exchange(c, n, s, f)
                }
                pub fn fetch_add(&self, v: $t, o: Ordering) -> $t {
                    sched_point();
                    self.0.fetch_add(v, o)
                }
                pub fn fetch_sub(&self, v: $t, o: Ordering) -> $t {
                    sched_point();
                    self.0.fetch_sub(v, o)
                }
                pub fn fetch_or(&self, v: $t, o: Ordering) -> $t {
                    sched_point();
                    self.0.fetch_or(v, o)
                }
                pub fn fetch_and(&self, v: $t, o: Ordering) -> $t {
                    sched_point();
                    self.0.fetch_and(v, o)
                }
                pub fn get_mut(&mut self) -> &mut $t {
                    self.0.get_mut()
                }
                pub fn into_inner(self) -> $t {
                    self.0.into_inner()
                }
            }
        };
    }

    int_atomic!(AtomicU32, u32);
    int_atomic!(AtomicU64, u64);
    int_atomic!(AtomicUsize, usize);

    #[repr(transparent)]
    #[derive(Default)]
    pub struct AtomicBool(core::sync::atomic::AtomicBool);

    impl core::fmt::Debug for AtomicBool {
        fn fmt(&self, f: &mut core::fmt::Formatter<'_>) -> core::fmt::Result {
            core::fmt::Debug::fmt(&self.0, f)
        }
    }

    impl AtomicBool {
        pub const fn new(v: bool) -> Self {
            Self(core::sync::atomic::AtomicBool::new(v))
        }
        pub fn peek(&self) -> bool {
            self.0.load(Ordering::SeqCst)
        }
        pub fn load(&self, o: Ordering) -> bool {
            sched_point();
            self.0.load(o)
        }
        pub fn store(&self, v: bool, o: Ordering) {
            sched_point();
            self.0.store(v, o)
        }
        pub fn swap(&self, v: bool, o: Ordering) -> bool {
            sched_point();
            self.0.swap(v, o)
        }
        pub fn compare_exchange(&self, c: bool, n: bool, s: Ordering, f: Ordering) -> Result<bool, bool> {
            sched_point();
            self.0.compare_exchange(c, n, s, f)
        }
        pub fn fetch_or(&self, v: bool, o: Ordering) -> bool {
            sched_point();
            self.0.fetch_or(v, o)
        }
        pub fn fetch_and(&self, v: bool, o: Ordering) -> bool {
            sched_point();
            self.0.fetch_and(v, o)
        }
    }

    // the wrappers must not change any layout the shared-memory code depends on
    const _: () = {
        assert!(size_of::<AtomicU32>() == 4 && align_of::<AtomicU32>() == 4);
        assert!(size_of::<AtomicU64>() == 8 && align_of::<AtomicU64>() == align_of::<core::sync::atomic::AtomicU64>());
        assert!(size_of::<AtomicUsize>() == size_of::<usize>());
        assert!(size_of::<AtomicBool>() == 1);
    };
}

// ---------------------------------------------------------------------------------------------
// futex model

pub mod futex {
    use std::cell::RefCell;

    use libc::{c_int, c_long, timespec};
    use shuttle::rand::Rng as _;

    use super::{STATS, atomic::AtomicU32, hooks_active, qalloc, sched_point, take_spurious};

    /// All tasks of an execution run on one OS thread and are switched only at explicit scheduling
    /// points, so the model needs no lock of its own: "check the value and enqueue" is atomic because
    /// no scheduling point lies between the two.  Blocking is `shuttle::thread::park` (no guard is
    /// held while a task is suspended, which matters when shuttle force-unwinds a cut-off execution).
    #[derive(Default)]
    pub struct Model {
        st: RefCell<State>,
    }

    #[derive(Default)]
    struct State {
        /// (address, ticket, task) of blocked waiters, in arrival order.  Shared-memory objects are
        /// modelled as one block per object (`vsched::shm`), so the address identifies the futex.
        waiters: Vec<(usize, u64, shuttle::thread::Thread)>,
        next: u64,
    }

    // SAFETY: a `Model` is only ever touched from the OS thread that runs the execution.
    unsafe impl Send for Model {}
    // SAFETY: as above.
    unsafe impl Sync for Model {}

    impl Model {
        pub fn new() -> Self {
            Model::default()
        }
    }

    fn model() -> std::sync::Arc<Model> {
        super::FUTEX.with(|f| f.borrow().clone()).expect("futex model used outside vsched::explore")
    }

    /// Number of tasks currently blocked in FUTEX_WAIT (harness-side observation).
    pub fn blocked_now() -> usize {
        super::BLOCKED.with(|b| b.get())
    }

    /// Replacement for `libc::syscall(SYS_futex, uaddr, op, val, timeout, uaddr2, val3)`.
    ///
    /// FUTEX_WAIT: atomically (w.r.t. FUTEX_WAKE) "if *uaddr != val return -1/EAGAIN else block";
    /// may return 0 spuriously when the calling task's spurious script says so.
    /// FUTEX_WAKE: unblocks at most `val` waiters on `uaddr` (which ones: chosen by the schedule's
    /// random source), returns their number.
    ///
    /// # Safety
    /// `uaddr` must point to a live `AtomicU32`.
    pub unsafe fn syscall(
        nr: c_long,
        uaddr: *const AtomicU32,
        op: c_int,
        val: u32,
        timeout: *const timespec,
        _uaddr2: *const AtomicU32,
        _val3: u32,
    ) -> c_long {
        assert_eq!(nr, libc::SYS_futex, "vsched::futex models SYS_futex only");
        assert!(timeout.is_null(), "vsched::futex models untimed waits only");
        if !hooks_active() {
            // Tear-down of an execution that was cut off (step bound, failure): shuttle force-unwinds
            // the suspended tasks, their destructors run (e.g. a guard unlocking a mutex with
            // sleepers).  Nothing can be woken or blocked any more.
            return if op == libc::FUTEX_WAKE { 0 } else { -1 };
        }
        let addr = uaddr as usize;
        // entering the kernel is a scheduling point
        sched_point();
        qalloc::untracked(|| {
            let m = model();
            match op {
                libc::FUTEX_WAIT => {
                    STATS.with(|s| s.borrow_mut().futex_wait_calls += 1);
                    // SAFETY: caller guarantees `uaddr` is live.
                    let cur = unsafe { (*uaddr).peek() };
                    if cur != val {
                        STATS.with(|s| s.borrow_mut().futex_wait_eagain += 1);
                        errno::set_errno(errno::Errno(libc::EAGAIN));
                        return -1;
                    }
                    if take_spurious() {
                        STATS.with(|s| s.borrow_mut().futex_wait_spurious += 1);
                        return 0;
                    }
                    let ticket = {
                        let mut st = m.st.borrow_mut();
                        let t = st.next;
                        st.next += 1;
                        st.waiters.push((addr, t, shuttle::thread::current()));
                        t
                    };
                    STATS.with(|s| s.borrow_mut().futex_wait_blocked += 1);
                    super::BLOCKED.with(|b| b.set(b.get() + 1));
                    // `park` may return spuriously or because of a stale token: only the removal of
                    // the ticket by FUTEX_WAKE ends the wait
                    while m.st.borrow().waiters.iter().any(|w| w.1 == ticket) {
                        shuttle::thread::park();
                    }
                    super::BLOCKED.with(|b| b.set(b.get() - 1));
                    0
                }
                libc::FUTEX_WAKE => {
                    STATS.with(|s| s.borrow_mut().futex_wake_calls += 1);
                    let mut woken: Vec<shuttle::thread::Thread> = Vec::new();
                    while (woken.len() as u32) < val {
                        let mut st = m.st.borrow_mut();
                        let cands: Vec<usize> =
                            st.waiters.iter().enumerate().filter(|(_, w)| w.0 == addr).map(|(i, _)| i).collect();
                        if cands.is_empty() {
                            break;
                        }
                        let pick = if cands.len() == 1 {
                            0
                        } else {
                            shuttle::rand::thread_rng().gen_range(0..cands.len())
                        };
                        let w = st.waiters.remove(cands[pick]);
                        woken.push(w.2);
                    }
                    let n = woken.len();
                    if n > 0 {
                        STATS.with(|s| s.borrow_mut().futex_wake_woke += n as u64);
                    }
                    for t in woken {
                        t.unpark();
                    }
                    n as c_long
                }
                other => panic!("vsched::futex: unmodelled futex op {other}"),
            }
        })
    }
}

thread_local! {
    static BLOCKED: Cell<usize> = const { Cell::new(0) };
}

// ---------------------------------------------------------------------------------------------
// POSIX shared memory objects, modelled in process memory

/// `shm_open` / `ftruncate` / `mmap` / `munmap` / `close` / `shm_unlink` of `shm/posix.rs` go here.
/// A shared memory object is a zero-filled, page-aligned block of process memory; every "mapping"
/// of an object is the same block (same address), which is also what makes a futex word inside it
/// one futex for all its users (the kernel keys shared futexes by (object, offset)).  Creating and
/// tearing down real mappings for each of the ~10^5 executions of a check costs ~2 ms each under
/// load (mmap_lock), the model costs one allocation.
pub mod shm {
    use std::{
        alloc::{Layout, System, GlobalAlloc},
        cell::RefCell,
    };

    use libc::{c_char, c_int, c_void, mode_t, off_t, size_t};

    const PAGE: usize = 4096;
    const FD_BASE: c_int = 1_000_000;

    struct Obj {
        id: u64,
        name: Option<Vec<u8>>,
        base: *mut u8,
        size: usize,
        fds: usize,
        maps: usize,
    }

    #[derive(Default)]
    struct Reg {
        objs: Vec<Obj>,
        fds: Vec<(c_int, u64)>,
        next_fd: c_int,
        next_id: u64,
    }

    thread_local! {
        static REG: RefCell<Reg> = RefCell::new(Reg::default());
    }

    fn set_errno(e: c_int) {
        errno::set_errno(errno::Errno(e));
    }

    fn reg<R>(f: impl FnOnce(&mut Reg) -> R) -> R {
        super::qalloc::untracked(|| REG.with(|r| f(&mut r.borrow_mut())))
    }

    fn gc(r: &mut Reg) {
        r.objs.retain(|o| {
            let dead = o.name.is_none() && o.fds == 0 && o.maps == 0;
            if dead && !o.base.is_null() {
                // SAFETY: allocated below with exactly this layout; nothing refers to it any more.
                unsafe { System.dealloc(o.base, Layout::from_size_align_unchecked(o.size, PAGE)) };
            }
            !dead
        });
    }

    /// # Safety
    /// `name` must be a valid C string.
    pub unsafe fn shm_open(name: *const c_char, oflag: c_int, _mode: mode_t) -> c_int {
        // SAFETY: caller contract.
        let n = unsafe { std::ffi::CStr::from_ptr(name) }.to_bytes().to_vec();
        reg(|r| {
            let found = r.objs.iter().position(|o| o.name.as_deref() == Some(&n[..]));
            let idx = match found {
                Some(i) => {
                    if oflag & libc::O_CREAT != 0 && oflag & libc::O_EXCL != 0 {
                        set_errno(libc::EEXIST);
                        return -1;
                    }
                    i
                }
                None => {
                    if oflag & libc::O_CREAT == 0 {
                        set_errno(libc::ENOENT);
                        return -1;
                    }
                    let id = r.next_id;
                    r.next_id += 1;
                    r.objs.push(Obj {
                        id,
                        name: Some(n),
                        base: std::ptr::null_mut(),
                        size: 0,
                        fds: 0,
                        maps: 0,
                    });
                    r.objs.len() - 1
                }
            };
            r.objs[idx].fds += 1;
            let fd = FD_BASE + r.next_fd;
            r.next_fd += 1;
            let id = r.objs[idx].id;
            r.fds.push((fd, id));
            fd
        })
    }

    /// # Safety
    /// `name` must be a valid C string.
    pub unsafe fn shm_unlink(name: *const c_char) -> c_int {
        // SAFETY: caller contract.
        let n = unsafe { std::ffi::CStr::from_ptr(name) }.to_bytes().to_vec();
        reg(|r| match r.objs.iter_mut().find(|o| o.name.as_deref() == Some(&n[..])) {
            Some(o) => {
                o.name = None;
                gc(r);
                0
            }
            None => {
                set_errno(libc::ENOENT);
                -1
            }
        })
    }

    /// # Safety
    /// None (model).
    pub unsafe fn ftruncate(fd: c_int, len: off_t) -> c_int {
        reg(|r| {
            let Some(id) = r.fds.iter().find(|e| e.0 == fd).map(|e| e.1) else {
                set_errno(libc::EBADF);
                return -1;
            };
            let o = r.objs.iter_mut().find(|o| o.id == id).expect("fd refers to an object");
            if !o.base.is_null() || len <= 0 {
                // only the "size a fresh object once" use of posix.rs is modelled
                set_errno(libc::EINVAL);
                return -1;
            }
            let size = (len as usize).div_ceil(PAGE) * PAGE;
            // SAFETY: non-zero size, valid alignment.
            let p = unsafe { System.alloc_zeroed(Layout::from_size_align_unchecked(size, PAGE)) };
            if p.is_null() {
                set_errno(libc::ENOMEM);
                return -1;
            }
            o.base = p;
            o.size = size;
            0
        })
    }

    /// # Safety
    /// None (model); the returned block stays valid until the matching `munmap`s and `close`s.
    pub unsafe fn mmap(_addr: *mut c_void, len: size_t, _prot: c_int, _flags: c_int, fd: c_int, off: off_t) -> *mut c_void {
        reg(|r| {
            let Some(id) = r.fds.iter().find(|e| e.0 == fd).map(|e| e.1) else {
                set_errno(libc::EBADF);
                return libc::MAP_FAILED;
            };
            let o = r.objs.iter_mut().find(|o| o.id == id).expect("fd refers to an object");
            if off != 0 || o.base.is_null() || len == 0 || len > o.size {
                set_errno(libc::EINVAL);
                return libc::MAP_FAILED;
            }
            o.maps += 1;
            o.base.cast::<c_void>()
        })
    }

    /// # Safety
    /// `addr` must come from [`mmap`].
    pub unsafe fn munmap(addr: *mut c_void, _len: size_t) -> c_int {
        reg(|r| {
            match r.objs.iter_mut().find(|o| o.base.cast::<c_void>() == addr && o.maps > 0) {
                Some(o) => {
                    o.maps -= 1;
                    gc(r);
                    0
                }
                None => {
                    // mapping of an abandoned execution: its object was forgotten, leave the memory alone
                    0
                }
            }
        })
    }

    /// # Safety
    /// None (model).
    pub unsafe fn close(fd: c_int) -> c_int {
        reg(|r| {
            let Some(p) = r.fds.iter().position(|e| e.0 == fd) else {
                set_errno(libc::EBADF);
                return -1;
            };
            let (_, id) = r.fds.remove(p);
            if let Some(o) = r.objs.iter_mut().find(|o| o.id == id) {
                o.fds -= 1;
            }
            gc(r);
            0
        })
    }

    /// Number of objects that still exist (harness-side leak check of the model itself).
    pub fn live_objects() -> usize {
        reg(|r| r.objs.len())
    }

    /// Forgets everything without freeing (abandoned executions may still point into the blocks).
    pub fn forget_all() {
        reg(|r| {
            r.objs.clear();
            r.fds.clear();
        });
    }
}

// ---------------------------------------------------------------------------------------------
// std::sync::Mutex replacement

pub mod sync {
    use std::ops::{Deref, DerefMut};

    use super::qalloc;

    /// Poisoning is not modelled (no task panics while holding it without failing the case).
    pub type LockResult<G> = Result<G, std::convert::Infallible>;

    pub struct Mutex<T>(shuttle::sync::Mutex<T>);

    pub struct MutexGuard<'a, T>(Option<shuttle::sync::MutexGuard<'a, T>>);

    impl<T> Mutex<T> {
        pub fn new(v: T) -> Self {
            Mutex(shuttle::sync::Mutex::new(v))
        }
        pub fn lock(&self) -> LockResult<MutexGuard<'_, T>> {
            Ok(MutexGuard(Some(qalloc::untracked(|| self.0.lock().unwrap()))))
        }
    }

    impl<T: Default> Default for Mutex<T> {
        fn default() -> Self {
            Mutex::new(T::default())
        }
    }

    impl<T> std::fmt::Debug for Mutex<T> {
        fn fmt(&self, f: &mut std::fmt::Formatter<'_>) -> std::fmt::Result {
            f.write_str("vsched::Mutex { .. }")
        }
    }

    impl<T> Deref for MutexGuard<'_, T> {
        type Target = T;
        fn deref(&self) -> &T {
            self.0.as_ref().unwrap()
        }
    }

    impl<T> DerefMut for MutexGuard<'_, T> {
        fn deref_mut(&mut self) -> &mut T {
            self.0.as_mut().unwrap()
        }
    }

    impl<T> Drop for MutexGuard<'_, T> {
        fn drop(&mut self) {
            let g = self.0.take();
            if std::thread::panicking() {
                // Forced unwind of a cut-off execution (or a failing task): releasing would re-enter
                // the scheduler while shuttle tears the execution down.  The execution is over.
                std::mem::forget(g);
            } else {
                qalloc::untracked(|| drop(g));
            }
        }
    }
}

// ---------------------------------------------------------------------------------------------
// quarantining allocator

pub mod qalloc {
    use std::{
        alloc::{GlobalAlloc, Layout, System},
        cell::{Cell, UnsafeCell},
    };

    pub const POISON: u8 = 0xDD;
    const CAP: usize = 1024;

    #[derive(Clone, Copy, PartialEq, Eq)]
    enum St {
        Empty,
        Live,
        Freed,
    }

    #[derive(Clone, Copy)]
    struct Entry {
        ptr: usize,
        size: usize,
        align: usize,
        st: St,
    }

    struct Table {
        e: [Entry; CAP],
        n: usize,
        double_free: usize,
        wrong_layout: usize,
        overflow: bool,
        first_double_free_size: usize,
    }

    thread_local! {
        static TRACK: Cell<bool> = const { Cell::new(false) };
        static TABLE: UnsafeCell<Table> = const { UnsafeCell::new(Table {
            e: [Entry { ptr: 0, size: 0, align: 0, st: St::Empty }; CAP],
            n: 0, double_free: 0, wrong_layout: 0, overflow: false, first_double_free_size: 0,
        }) };
    }

    pub struct Quarantine;

    fn tracking() -> bool {
        TRACK.try_with(|t| t.get()).unwrap_or(false)
    }

    /// Runs `f` with allocation tracking on (allocations made by `f` on this OS thread are recorded).
    pub fn tracked<R>(f: impl FnOnce() -> R) -> R {
        struct G(bool);
        impl Drop for G {
            fn drop(&mut self) {
                TRACK.with(|t| t.set(self.0));
            }
        }
        let _g = G(TRACK.with(|t| t.replace(true)));
        f()
    }

    /// Runs `f` with allocation tracking off (used around every context switch, so that the flag
    /// never leaks into another task or into shuttle's own allocations).
    pub fn untracked<R>(f: impl FnOnce() -> R) -> R {
        struct G(bool);
        impl Drop for G {
            fn drop(&mut self) {
                TRACK.with(|t| t.set(self.0));
            }
        }
        let _g = G(TRACK.with(|t| t.replace(false)));
        f()
    }

    fn with_table<R>(f: impl FnOnce(&mut Table) -> R) -> Option<R> {
        // SAFETY: the table is only touched from its own OS thread and never re-entrantly: the
        // closures passed here do not allocate.
        TABLE.try_with(|t| f(unsafe { &mut *t.get() })).ok()
    }

    // SAFETY: forwards to `System`; tracked blocks are withheld from `System.dealloc` until `finish`.
    unsafe impl GlobalAlloc for Quarantine {
        unsafe fn alloc(&self, layout: Layout) -> *mut u8 {
            // SAFETY: forwarded contract.
            let p = unsafe { System.alloc(layout) };
            if !p.is_null() && tracking() {
                record(p, layout);
            }
            p
        }

        unsafe fn alloc_zeroed(&self, layout: Layout) -> *mut u8 {
            // SAFETY: forwarded contract.
            let p = unsafe { System.alloc_zeroed(layout) };
            if !p.is_null() && tracking() {
                record(p, layout);
            }
            p
        }

        unsafe fn dealloc(&self, p: *mut u8, layout: Layout) {
            let handled = with_table(|t| {
                if t.n == 0 {
                    return false;
                }
                for i in 0..t.n {
                    let e = &mut t.e[i];
                    if e.ptr == p as usize {
                        match e.st {
                            St::Live => {
                                if e.size != layout.size() || e.align != layout.align() {
                                    t.wrong_layout += 1;
                                }
                                e.st = St::Freed;
                                // SAFETY: the block is still owned by us (never returned to System).
                                unsafe { std::ptr::write_bytes(p, POISON, e.size) };
                            }
                            St::Freed => {
                                if t.double_free == 0 {
                                    t.first_double_free_size = e.size;
                                }
                                t.double_free += 1;
                            }
                            St::Empty => {}
                        }
                        return true;
                    }
                }
                false
            })
            .unwrap_or(false);
            if !handled {
                // SAFETY: forwarded contract.
                unsafe { System.dealloc(p, layout) };
            }
        }

        unsafe fn realloc(&self, p: *mut u8, layout: Layout, new_size: usize) -> *mut u8 {
            let known = with_table(|t| t.n != 0 && t.e[..t.n].iter().any(|e| e.ptr == p as usize)).unwrap_or(false);
            if !known && !tracking() {
                // SAFETY: forwarded contract.
                return unsafe { System.realloc(p, layout, new_size) };
            }
            // tracked: allocate + copy + free through the tracked paths
            // SAFETY: `new_size` is valid for `layout.align()` by the caller's contract.
            let new_layout = unsafe { Layout::from_size_align_unchecked(new_size, layout.align()) };
            // SAFETY: forwarded contract.
            let np = unsafe { self.alloc(new_layout) };
            if !np.is_null() {
                // SAFETY: both blocks are valid for the copied length.
                unsafe {
                    std::ptr::copy_nonoverlapping(p, np, layout.size().min(new_size));
                    self.dealloc(p, layout);
                }
            }
            np
        }
    }

    fn record(p: *mut u8, layout: Layout) {
        with_table(|t| {
            if t.n == CAP {
                t.overflow = true;
                return;
            }
            t.e[t.n] = Entry {
                ptr: p as usize,
                size: layout.size(),
                align: layout.align(),
                st: St::Live,
            };
            t.n += 1;
        });
    }

    #[derive(Debug, Default, Clone)]
    pub struct Summary {
        pub tracked: usize,
        pub leaked: Vec<usize>,
        pub double_free: usize,
        pub double_free_size: usize,
        pub wrong_layout: usize,
        pub write_after_free: usize,
        pub overflow: bool,
    }

    /// Number of tracked blocks currently live (allocated, not yet freed).
    pub fn live() -> usize {
        with_table(|t| t.e[..t.n].iter().filter(|e| e.st == St::Live).count()).unwrap_or(0)
    }

    /// True if `p` points into a block the program has already freed.
    pub fn is_freed(p: *const u8) -> bool {
        with_table(|t| {
            t.e[..t.n].iter().any(|e| e.st == St::Freed && (p as usize) >= e.ptr && (p as usize) < e.ptr + e.size.max(1))
        })
        .unwrap_or(false)
    }

    /// Ends a tracking epoch: reports what happened and, if `release_freed`, gives every quarantined
    /// (freed) block back to `System`.  Blocks that are still live are forgotten, never freed here (a
    /// leaked block stays leaked: something may still point to it).
    fn finish(release_freed: bool) -> Summary {
        let mut s = Summary::default();
        let mut blocks: [(usize, usize, usize); CAP] = [(0, 0, 0); CAP];
        let mut nb = 0;
        with_table(|t| {
            s.tracked = t.n;
            s.double_free = t.double_free;
            s.double_free_size = t.first_double_free_size;
            s.wrong_layout = t.wrong_layout;
            s.overflow = t.overflow;
            for e in &t.e[..t.n] {
                if e.st == St::Freed {
                    // SAFETY: quarantined block, still owned by the allocator.
                    let bytes = unsafe { std::slice::from_raw_parts(e.ptr as *const u8, e.size) };
                    if bytes.iter().any(|b| *b != POISON) {
                        s.write_after_free += 1;
                    }
                    if release_freed {
                        blocks[nb] = (e.ptr, e.size, e.align);
                        nb += 1;
                    }
                }
            }
            t.n = 0;
            t.double_free = 0;
            t.wrong_layout = 0;
            t.overflow = false;
            t.first_double_free_size = 0;
        });
        for b in &blocks[..nb] {
            // SAFETY: each block came from System.alloc with exactly this layout and was withheld.
            unsafe { System.dealloc(b.0 as *mut u8, Layout::from_size_align_unchecked(b.1, b.2)) };
        }
        s
    }

    /// Ends the epoch and lists the sizes of blocks that were still live (= leaked).
    pub fn finish_report() -> Summary {
        let mut sizes: [usize; CAP] = [0; CAP];
        let mut n = 0;
        with_table(|t| {
            for e in &t.e[..t.n] {
                if e.st == St::Live {
                    sizes[n] = e.size;
                    n += 1;
                }
            }
        });
        let mut s = finish(true);
        s.leaked = sizes[..n].to_vec();
        s
    }

    /// Drops all bookkeeping of an abandoned execution (step bound, panic, violation) without giving
    /// anything back to `System`: abandoned coroutine stacks may still point into these blocks.
    pub fn abandon() {
        let _ = finish(false);
    }
}

// ---------------------------------------------------------------------------------------------
// schedule exploration

#[derive(Clone, Debug)]
pub struct RunCfg {
    pub seed: u64,
    pub iters: usize,
    pub max_steps: usize,
    pub stack: usize,
    /// `Some(d)`: PCT scheduler with depth d instead of the uniform random scheduler.
    pub pct: Option<usize>,
}

impl RunCfg {
    pub fn random(seed: u64, iters: usize) -> Self {
        RunCfg {
            seed,
            iters,
            max_steps: 20_000,
            stack: 256 << 10,
            pct: None,
        }
    }
}

#[derive(Clone, Debug, Default)]
pub struct RunStats {
    pub schedules: u64,
    pub completed: u64,
    pub step_bound: u64,
    pub exec: ExecStats,
}

/// Process-wide totals over all cases (for the evidence file and the inconclusive verdict).
pub static TOTAL_SCHEDULES: std::sync::atomic::AtomicU64 = std::sync::atomic::AtomicU64::new(0);
pub static TOTAL_STEP_BOUND: std::sync::atomic::AtomicU64 = std::sync::atomic::AtomicU64::new(0);

thread_local! {
    static STARTED: Cell<u64> = const { Cell::new(0) };
    static COMPLETED: Cell<u64> = const { Cell::new(0) };
}

fn reset_exec_state() {
    shm::forget_all();
    FUTEX.with(|f| *f.borrow_mut() = None);
    SPURIOUS.with(|s| s.borrow_mut().clear());
    BLOCKED.with(|b| b.set(0));
}

/// Runs `body` as the main task of `cfg.iters` shuttle executions (schedules drawn from `cfg.seed`).
/// `body` returns `Err` (or calls [`violation`]) when the oracle fails; a panic of any task, a
/// deadlock (every unfinished task blocked) and a violation are reported as `Err(Failure)`.
/// Executions cut off by the step bound are counted in `step_bound` (inconclusive, not failures).
pub fn explore<F>(cfg: &RunCfg, body: F) -> Result<RunStats, Failure>
where
    F: Fn() -> Result<(), Failure> + Send + Sync + 'static,
{
    clear_violation();
    STATS.with(|s| *s.borrow_mut() = ExecStats::default());
    STARTED.with(|c| c.set(0));
    COMPLETED.with(|c| c.set(0));
    qalloc::abandon();
    reset_exec_state();

    let mut config = shuttle::Config::new();
    config.stack_size = cfg.stack;
    // VH_MAX_STEPS: development aid to exercise the step-bound path (never set by bin/check)
    let max_steps = std::env::var("VH_MAX_STEPS").ok().and_then(|s| s.parse().ok()).unwrap_or(cfg.max_steps);
    config.max_steps = shuttle::MaxSteps::ContinueAfter(max_steps);
    config.failure_persistence = shuttle::FailurePersistence::None;
    config.silence_warnings = true;

    let wrapped = move || {
        if has_violation() {
            return;
        }
        // a previous execution may have been cut off by the step bound: drop its bookkeeping
        qalloc::abandon();
        reset_exec_state();
        STARTED.with(|c| c.set(c.get() + 1));
        FUTEX.with(|f| *f.borrow_mut() = Some(std::sync::Arc::new(futex::Model::new())));
        IN_EXEC.with(|c| c.set(true));
        let r = body();
        IN_EXEC.with(|c| c.set(false));
        if let Err(f) = r {
            let it = STARTED.with(|c| c.get()) - 1;
            violation(&f.signature, format!("{} [schedule #{it}]", f.detail));
        }
        FUTEX.with(|f| *f.borrow_mut() = None);
        COMPLETED.with(|c| c.set(c.get() + 1));
    };

    let res = vcommon::catch(|| match cfg.pct {
        None => {
            let s = shuttle::scheduler::RandomScheduler::new_from_seed(cfg.seed, cfg.iters);
            shuttle::Runner::new(s, config).run(wrapped)
        }
        Some(d) => {
            let s = shuttle::scheduler::PctScheduler::new_from_seed(cfg.seed, d, cfg.iters);
            shuttle::Runner::new(s, config).run(wrapped)
        }
    });
    IN_EXEC.with(|c| c.set(false));
    let started = STARTED.with(|c| c.get());
    let completed = COMPLETED.with(|c| c.get());
    let exec = STATS.with(|s| s.borrow().clone());
    let viol = take_violation();
    reset_exec_state();
    match res {
        Err((msg, loc)) => {
            qalloc::abandon();
            // an oracle violation recorded before the panic wins (it is the more specific report)
            if let Some(v) = viol {
                return Err(v);
            }
            let it = started.saturating_sub(1);
            let how = if cfg.pct.is_some() { "pct" } else { "random" };
            if msg.starts_with("deadlock!") {
                Err(Failure::new(
                    "deadlock: every unfinished task is blocked",
                    format!("{msg} [schedule #{it} of {how} seed {}]", cfg.seed),
                ))
            } else {
                let m: String = msg.chars().take(120).collect();
                Err(Failure::new(
                    format!("panic under schedule: {m} @ {}", vcommon::short_loc(&strip_line(&loc))),
                    format!("panic `{msg}` at {loc} [schedule #{it} of {how} seed {}]", cfg.seed),
                ))
            }
        }
        Ok(n) => {
            if let Some(v) = viol {
                qalloc::abandon();
                return Err(v);
            }
            // executions the scheduler ran but whose body did not reach its end were cut by the step bound
            let step_bound = (n as u64).saturating_sub(completed);
            if step_bound > 0 {
                qalloc::abandon();
            }
            TOTAL_SCHEDULES.fetch_add(n as u64, std::sync::atomic::Ordering::Relaxed);
            TOTAL_STEP_BOUND.fetch_add(step_bound, std::sync::atomic::Ordering::Relaxed);
            Ok(RunStats {
                schedules: n as u64,
                completed,
                step_bound,
                exec,
            })
        }
    }
}

/// `file:line` → `file` (panic locations inside the generated copy move when /repo changes).
fn strip_line(loc: &str) -> String {
    let l = match loc.rsplit_once(':') {
        Some((f, _)) => f,
        None => loc,
    };
    // OUT_DIR paths contain a build hash: keep only the part below the generated tree
    if let Some(i) = l.find("/out/afc/") {
        format!("afc_inst/{}", &l[i + 9..])
    } else if let Some(i) = l.find("/out/text/") {
        format!("text_inst/{}", &l[i + 10..])
    } else {
        l.to_string()
    }
}

/// Spawns a shuttle task.
pub fn spawn<T: Send + 'static>(f: impl FnOnce() -> T + Send + 'static) -> shuttle::thread::JoinHandle<T> {
    shuttle::thread::spawn(f)
}
