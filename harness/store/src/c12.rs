//! C12: fact storage (perspectives, fact indexes, segments) vs a flat map.
use std::collections::BTreeSet;

use aranya_runtime::{
    Address, GraphId, LocatedAddress, Location, MaxCut, PolicyId, Prior, Priority, SegmentIndex,
    storage::{
        HeadSet, Perspective, Segment, Storage, StorageProvider,
        linear::{LinearStorageProvider, libc::FileManager, testing::Manager},
    },
};
use proptest::prelude::*;
use serde::{Deserialize, Serialize};
use vcommon::{CaseInfo, CheckResult, Ctx, Failure, Report, ensure, idx};

use crate::sw::{self, Cmd, FOp, MKey, Model, Universe};

#[derive(Clone, Debug, Serialize, Deserialize)]
pub enum Op {
    Fact(FOp),
    AddCmd,
    /// Write the live perspective as a segment (adding a command first if there is none or writes
    /// are pending); `commit` also commits it as the single head with its fact index as cache.
    Write { commit: bool },
    /// Write the live perspective, then open a linear perspective at any stored command.
    Open { sel: u16 },
    /// Fact perspective at a stored command, writes, `write_facts`; then (if a second location
    /// exists that is neither ancestor nor descendant) a merge perspective over that fact index.
    Braid { at: u16, ops: Vec<FOp>, other: u16 },
    /// Commit the newest segment, then (file backend) drop the provider and reopen the file.
    Reopen,
}

#[derive(Clone, Debug, Serialize, Deserialize)]
pub struct Case {
    /// Facts written by the init command.
    init: Vec<FOp>,
    /// Further commands (each with its writes) in the init perspective.
    init_extra: Vec<Vec<FOp>>,
    ops: Vec<Op>,
}

struct CmdM {
    addr: Address,
    after: Model,
}

struct SegM {
    index: SegmentIndex,
    cmds: Vec<CmdM>,
    /// parents of the first command, as (segment, command) indexes into `World::segs`
    parents: Vec<(usize, usize)>,
    /// number of non-empty fact-index writes along this ancestry line
    chain: usize,
}

impl SegM {
    fn loc(&self, j: usize) -> Location {
        Location::new(self.index, self.cmds[j].addr.max_cut)
    }
}

struct Live<P> {
    p: P,
    cur: Model,
    cmds: Vec<CmdM>,
    pending: usize,
    parents: Vec<(usize, usize)>,
    head: Prior<Address>,
    chain: usize,
    fact_writes: bool,
    here: BTreeSet<MKey>,
}

#[derive(Default)]
struct Stats {
    segments: usize,
    mid_opens: usize,
    head_opens: usize,
    max_chain: usize,
    del_older: usize,
    overwrite_older: usize,
    braids: usize,
    merges: usize,
    commits: usize,
    reopens: usize,
    mid_checks: usize,
    empty_fact_segments: usize,
}

struct World<'a, SP: StorageProvider> {
    mk: &'a dyn Fn() -> SP,
    sp: Option<SP>,
    gid: GraphId,
    segs: Vec<SegM>,
    live: Option<Live<SP::Perspective>>,
    ctr: u64,
    step: usize,
    uni: Universe,
    can_reopen: bool,
    /// 2 = full universe after every op; 1 = at every structural op; 0 = at segment writes / perspective opens only
    lvl: u8,
    committed: Option<(usize, HeadSet)>,
    st: Stats,
}

fn serr(sig: &str, e: impl std::fmt::Debug) -> Failure {
    Failure::new(sig, format!("{e:?}"))
}

impl<'a, SP: StorageProvider> World<'a, SP> {
    fn storage(&mut self) -> Result<&mut SP::Storage, Failure> {
        let gid = self.gid;
        self.sp.as_mut().expect("provider").get_storage(gid).map_err(|e| serr("get_storage failed", e))
    }

    fn next_cmd(&mut self, parent: Prior<Address>, first_of_merge: bool) -> Cmd {
        self.ctr += 1;
        let prio = match parent {
            Prior::None => Priority::Init,
            Prior::Merge(..) if first_of_merge => Priority::Merge,
            _ => Priority::Basic((self.ctr % 7) as u32),
        };
        Cmd {
            id: sw::cmd_id(self.ctr),
            parent,
            prio,
            policy: if matches!(parent, Prior::None) { Some(vec![0u8; 8]) } else { None },
            data: self.ctr.to_le_bytes().to_vec(),
        }
    }

    fn add_cmd(&mut self) -> CheckResult {
        let head = self.live.as_ref().expect("live").head;
        let cmd = self.next_cmd(head, true);
        let live = self.live.as_mut().expect("live");
        let r = live.p.add_command(&cmd);
        ensure!(r.is_ok(), "add_command failed", "{r:?}");
        let addr = Address { id: cmd.id, max_cut: MaxCut::new(sw::next_max_cut(&head)) };
        live.cmds.push(CmdM { addr, after: live.cur.clone() });
        live.head = Prior::Single(addr);
        live.pending = 0;
        Ok(())
    }

    fn fact(&mut self, o: &FOp) -> CheckResult {
        let full = self.lvl >= 2;
        self.ensure_live()?;
        self.step += 1;
        let step = self.step;
        let live = self.live.as_mut().expect("live");
        let Some((key, val)) = o.resolve(&live.cur, step) else { return Ok(()) };
        if live.cur.contains_key(&key) && !live.here.contains(&key) {
            if val.is_none() {
                self.st.del_older += 1;
            } else {
                self.st.overwrite_older += 1;
            }
        }
        sw::apply(&mut live.p, &mut live.cur, &key, &val)?;
        live.here.insert(key.clone());
        live.pending += 1;
        live.fact_writes = true;
        sw::check_near(&live.p, &live.cur, &key, "live perspective")?;
        if full {
            sw::check_all(&live.p, &live.cur, &self.uni, "live perspective")?;
        }
        Ok(())
    }

    /// Writes the live perspective (if it holds anything) and checks the stored segment.
    fn flush(&mut self) -> Result<Option<usize>, Failure> {
        let Some(l) = self.live.as_ref() else { return Ok(None) };
        if l.pending > 0 {
            // real callers never leave rule writes outside a command
            self.add_cmd()?;
        }
        let l = self.live.take().expect("live");
        if l.cmds.is_empty() {
            return Ok(None);
        }
        let seg = self.storage()?.write(l.p).map_err(|e| serr("write(perspective) failed", e))?;
        let m = SegM {
            index: seg.index(),
            cmds: l.cmds,
            parents: l.parents,
            chain: l.chain + usize::from(l.fact_writes),
        };
        if !l.fact_writes {
            self.st.empty_fact_segments += 1;
        }
        let hl = seg.head_location().map_err(|e| serr("head_location failed", e))?;
        ensure!(hl == m.loc(m.cmds.len() - 1), "segment head location differs", "{hl:?} vs {:?}", m.loc(m.cmds.len() - 1));
        ensure!(seg.first_location() == m.loc(0), "segment first location differs", "{:?} vs {:?}", seg.first_location(), m.loc(0));
        drop(seg);
        self.st.max_chain = self.st.max_chain.max(m.chain);
        self.st.segments += 1;
        self.segs.push(m);
        let si = self.segs.len() - 1;
        self.verify_segment(si, false)?;
        Ok(Some(si))
    }

    /// Facts of the stored segment and of every mid-segment reconstruction vs the model snapshots.
    /// `again` = a later re-read of a segment that was fully verified when written: the segment's
    /// fact index and the mid-segment fact perspectives only.
    fn verify_segment(&mut self, si: usize, again: bool) -> CheckResult {
        let n = self.segs[si].cmds.len();
        let first = self.segs[si].loc(0);
        {
            let gid = self.gid;
            let storage = self.sp.as_mut().expect("provider").get_storage(gid).map_err(|e| serr("get_storage failed", e))?;
            let seg = storage.get_segment(first).map_err(|e| serr("get_segment failed", e))?;
            let facts = seg.facts().map_err(|e| serr("segment.facts failed", e))?;
            sw::check_all(&facts, &self.segs[si].cmds[n - 1].after, &self.uni, "segment fact index")?;
        }
        for j in 0..n {
            if again && (j + 1 == n || self.lvl == 0) {
                continue;
            }
            let loc = self.segs[si].loc(j);
            let gid = self.gid;
            let storage = self.sp.as_mut().expect("provider").get_storage(gid).map_err(|e| serr("get_storage failed", e))?;
            let fp = storage.get_fact_perspective(loc).map_err(|e| serr("get_fact_perspective failed", e))?;
            let what = if j + 1 == n { "fact perspective at segment head" } else { "mid-segment fact perspective" };
            sw::check_all(&fp, &self.segs[si].cmds[j].after, &self.uni, what)?;
            if j + 1 < n {
                self.st.mid_checks += 1;
            }
            if again {
                continue;
            }
            if j + 1 == n || self.lvl == 0 {
                // at the head both constructors wrap the segment's own fact index: one is enough
                // (the next perspective opened at this head is checked in full as well)
                continue;
            }
            let lp = storage.get_linear_perspective(loc).map_err(|e| serr("get_linear_perspective failed", e))?;
            let what = if j + 1 == n { "linear perspective at segment head" } else { "mid-segment linear perspective" };
            sw::check_all(&lp, &self.segs[si].cmds[j].after, &self.uni, what)?;
            let ha = lp.head_address().map_err(|e| serr("head_address failed", e))?;
            ensure!(ha == Prior::Single(self.segs[si].cmds[j].addr), "fresh perspective head address differs", "{ha:?} vs {:?}", self.segs[si].cmds[j].addr);
        }
        Ok(())
    }

    fn open_at(&mut self, si: usize, cj: usize) -> CheckResult {
        let loc = self.segs[si].loc(cj);
        let p = self.storage()?.get_linear_perspective(loc).map_err(|e| serr("get_linear_perspective failed", e))?;
        let s = &self.segs[si];
        let mid = cj + 1 < s.cmds.len();
        if mid {
            self.st.mid_opens += 1;
        } else {
            self.st.head_opens += 1;
        }
        let live = Live {
            p,
            cur: s.cmds[cj].after.clone(),
            cmds: Vec::new(),
            pending: 0,
            parents: vec![(si, cj)],
            head: Prior::Single(s.cmds[cj].addr),
            chain: s.chain + usize::from(mid),
            fact_writes: false,
            here: BTreeSet::new(),
        };
        sw::check_all(&live.p, &live.cur, &self.uni, "live perspective")?;
        self.live = Some(live);
        Ok(())
    }

    fn ensure_live(&mut self) -> CheckResult {
        if self.live.is_none() {
            let si = self.segs.len() - 1;
            let cj = self.segs[si].cmds.len() - 1;
            self.open_at(si, cj)?;
        }
        Ok(())
    }

    fn locations(&self) -> Vec<(usize, usize)> {
        let mut v = Vec::new();
        for (si, s) in self.segs.iter().enumerate() {
            for cj in 0..s.cmds.len() {
                v.push((si, cj));
            }
        }
        v
    }

    fn parents_of(&self, (si, cj): (usize, usize)) -> Vec<(usize, usize)> {
        if cj > 0 { vec![(si, cj - 1)] } else { self.segs[si].parents.clone() }
    }

    /// The location and all its ancestors.
    fn ancestors(&self, l: (usize, usize)) -> BTreeSet<(usize, usize)> {
        let mut seen = BTreeSet::new();
        let mut todo = vec![l];
        while let Some(x) = todo.pop() {
            if seen.insert(x) {
                todo.extend(self.parents_of(x));
            }
        }
        seen
    }

    fn commit(&mut self, si: usize) -> CheckResult {
        let s = &self.segs[si];
        let last = s.cmds.len() - 1;
        let head = LocatedAddress { id: s.cmds[last].addr.id, segment: s.index, max_cut: s.cmds[last].addr.max_cut };
        let loc = s.loc(last);
        let heads = HeadSet::single(head);
        let storage = self.storage()?;
        let facts = storage.get_segment(loc).and_then(|sg| sg.facts()).map_err(|e| serr("segment.facts failed", e))?;
        storage.commit_heads(heads.clone(), facts).map_err(|e| serr("commit_heads failed", e))?;
        self.committed = Some((si, heads));
        self.st.commits += 1;
        self.check_committed()
    }

    fn check_committed(&mut self) -> CheckResult {
        let Some((si, heads)) = self.committed.clone() else { return Ok(()) };
        let gid = self.gid;
        let storage = self.sp.as_mut().expect("provider").get_storage(gid).map_err(|e| serr("get_storage failed", e))?;
        let got = storage.get_heads().map_err(|e| serr("get_heads failed", e))?;
        ensure!(*got == heads, "committed head set differs", "{got:?} vs {heads:?}");
        let fc = storage.fact_cache().map_err(|e| serr("fact_cache failed", e))?;
        let s = &self.segs[si];
        sw::check_all(&fc, &s.cmds[s.cmds.len() - 1].after, &self.uni, "committed fact cache")
    }

    fn braid(&mut self, at: u16, ops: &[FOp], other: u16) -> CheckResult {
        self.flush()?;
        let locs = self.locations();
        let l = locs[idx(at, locs.len())];
        let loc = self.segs[l.0].loc(l.1);
        let mut m = self.segs[l.0].cmds[l.1].after.clone();
        let mut fp = self.storage()?.get_fact_perspective(loc).map_err(|e| serr("get_fact_perspective failed", e))?;
        sw::check_all(&fp, &m, &self.uni, "braid fact perspective")?;
        let mut wrote = false;
        for o in ops {
            self.step += 1;
            let Some((key, val)) = o.resolve(&m, self.step) else { continue };
            sw::apply(&mut fp, &mut m, &key, &val)?;
            wrote = true;
            sw::check_near(&fp, &m, &key, "braid fact perspective")?;
        }
        sw::check_all(&fp, &m, &self.uni, "braid fact perspective")?;
        let fi = self.storage()?.write_facts(fp).map_err(|e| serr("write_facts failed", e))?;
        sw::check_all(&fi, &m, &self.uni, "braid fact index")?;
        self.st.braids += 1;
        let chain = self.segs[l.0].chain + 1 + usize::from(wrote);
        self.st.max_chain = self.st.max_chain.max(chain);

        let r = locs[idx(other, locs.len())];
        let al = self.ancestors(l);
        let ar = self.ancestors(r);
        if al.contains(&r) || ar.contains(&l) {
            return Ok(());
        }
        // last common ancestor: a common ancestor with the highest max cut
        let lca = al
            .intersection(&ar)
            .copied()
            .max_by_key(|&(si, cj)| (self.segs[si].cmds[cj].addr.max_cut.get(), std::cmp::Reverse((si, cj))))
            .expect("init is a common ancestor");
        let lca_loc = self.segs[lca.0].loc(lca.1);
        let rloc = self.segs[r.0].loc(r.1);
        let p = self
            .storage()?
            .new_merge_perspective(loc, rloc, lca_loc, PolicyId::new(0), fi)
            .map_err(|e| serr("new_merge_perspective failed", e))?;
        sw::check_all(&p, &m, &self.uni, "merge perspective")?;
        let head = Prior::Merge(self.segs[l.0].cmds[l.1].addr, self.segs[r.0].cmds[r.1].addr);
        let ha = p.head_address().map_err(|e| serr("head_address failed", e))?;
        ensure!(ha == head, "merge perspective head address differs", "{ha:?} vs {head:?}");
        self.live = Some(Live {
            p,
            cur: m,
            cmds: Vec::new(),
            pending: 0,
            parents: vec![l, r],
            head,
            chain,
            fact_writes: false,
            here: BTreeSet::new(),
        });
        // the merge command itself
        self.add_cmd()?;
        self.st.merges += 1;
        let live = self.live.as_ref().expect("live");
        sw::check_all(&live.p, &live.cur, &self.uni, "merge perspective")
    }

    fn reopen(&mut self) -> CheckResult {
        let si = match self.flush()? {
            Some(si) => si,
            None => self.segs.len() - 1,
        };
        self.commit(si)?;
        if self.can_reopen {
            // every reader must be gone before the file can be locked again
            self.live = None;
            self.sp = None;
            self.sp = Some((self.mk)());
            self.st.reopens += 1;
            self.check_committed()?;
        }
        for si in 0..self.segs.len() {
            self.verify_segment(si, true)?;
        }
        Ok(())
    }

    fn op(&mut self, o: &Op) -> CheckResult {
        match o {
            Op::Fact(f) => self.fact(f),
            Op::AddCmd => {
                self.ensure_live()?;
                self.add_cmd()?;
                if self.lvl == 0 {
                    return Ok(());
                }
                let live = self.live.as_ref().expect("live");
                sw::check_all(&live.p, &live.cur, &self.uni, "live perspective")
            }
            Op::Write { commit } => {
                self.ensure_live()?;
                let l = self.live.as_ref().expect("live");
                if l.cmds.is_empty() && l.pending == 0 {
                    self.add_cmd()?;
                }
                let si = self.flush()?.expect("segment written");
                if *commit {
                    self.commit(si)?;
                }
                Ok(())
            }
            Op::Open { sel } => {
                self.flush()?;
                let locs = self.locations();
                let (si, cj) = locs[idx(*sel, locs.len())];
                self.open_at(si, cj)
            }
            Op::Braid { at, ops, other } => self.braid(*at, ops, *other),
            Op::Reopen => self.reopen(),
        }
    }
}

fn all_fops(c: &Case) -> impl Iterator<Item = &FOp> {
    c.init
        .iter()
        .chain(c.init_extra.iter().flatten())
        .chain(c.ops.iter().flat_map(|o| -> Box<dyn Iterator<Item = &FOp> + '_> {
            match o {
                Op::Fact(f) => Box::new(std::iter::once(f)),
                Op::Braid { ops, .. } => Box::new(ops.iter()),
                _ => Box::new(std::iter::empty()),
            }
        }))
}

fn run_case<SP: StorageProvider>(mk: &dyn Fn() -> SP, can_reopen: bool, lvl: u8, c: &Case, info: &mut CaseInfo) -> CheckResult {
    let uni = Universe::new(all_fops(c));
    let mut sp = mk();
    // ---- the init perspective (no prior facts: deletes leave no tombstones)
    let mut p = sp.new_perspective(PolicyId::new(0));
    let mut cur = Model::new();
    let mut step = 0usize;
    let mut cmds: Vec<CmdM> = Vec::new();
    let mut head: Prior<Address> = Prior::None;
    let mut ctr = 0u64;
    let mut fact_writes = false;
    let batches: Vec<&Vec<FOp>> = std::iter::once(&c.init).chain(c.init_extra.iter()).collect();
    for b in batches {
        for o in b {
            step += 1;
            let Some((key, val)) = o.resolve(&cur, step) else { continue };
            sw::apply(&mut p, &mut cur, &key, &val)?;
            fact_writes = true;
            sw::check_near(&p, &cur, &key, "init perspective")?;
        }
        sw::check_all(&p, &cur, &uni, "init perspective")?;
        ctr += 1;
        let cmd = Cmd {
            id: sw::cmd_id(ctr),
            parent: head,
            prio: if cmds.is_empty() { Priority::Init } else { Priority::Basic(1) },
            policy: if cmds.is_empty() { Some(vec![0u8; 8]) } else { None },
            data: ctr.to_le_bytes().to_vec(),
        };
        let r = p.add_command(&cmd);
        ensure!(r.is_ok(), "add_command failed", "{r:?}");
        let addr = Address { id: cmd.id, max_cut: MaxCut::new(sw::next_max_cut(&head)) };
        cmds.push(CmdM { addr, after: cur.clone() });
        head = Prior::Single(addr);
        sw::check_all(&p, &cur, &uni, "init perspective")?;
    }
    let (gid, storage) = sp.new_storage(p).map_err(|e| serr("new_storage failed", e))?;
    let heads = storage.get_heads().map_err(|e| serr("get_heads failed", e))?.clone();
    ensure!(heads.len() == 1, "new storage does not have exactly one head", "{heads:?}");
    let h = heads.as_slice()[0];
    let last = cmds.last().expect("init").addr;
    ensure!(h.id == last.id && h.max_cut == last.max_cut, "new storage head differs", "{h:?} vs {last:?}");
    let multi_init = cmds.len() > 1;
    let seg0 = SegM { index: h.segment, cmds, parents: Vec::new(), chain: usize::from(fact_writes) };
    let mut w = World {
        mk,
        sp: Some(sp),
        gid,
        segs: vec![seg0],
        live: None,
        ctr,
        step,
        uni,
        can_reopen,
        lvl,
        committed: Some((0, heads)),
        st: Stats::default(),
    };
    w.check_committed()?;
    w.verify_segment(0, false)?;
    for o in &c.ops {
        w.op(o)?;
    }
    // ---- end: write what is pending, then re-read everything ever stored
    w.flush()?;
    for si in 0..w.segs.len() {
        w.verify_segment(si, true)?;
    }
    w.check_committed()?;

    let st = &w.st;
    if st.max_chain >= 17 || st.del_older >= 1 {
        info.nontrivial();
    }
    if st.max_chain >= 17 {
        info.label("chain>=17 (compaction ran)");
    }
    if st.max_chain >= 33 {
        info.label("chain>=33 (compacted twice)");
    }
    if st.del_older >= 1 {
        info.label("delete of a fact living in an older index");
    }
    if st.overwrite_older >= 1 {
        info.label("overwrite of a fact living in an older index");
    }
    if st.mid_opens >= 1 {
        info.label("linear perspective opened mid-segment");
    }
    if st.mid_checks >= 1 {
        info.label("mid-segment reconstruction checked");
    }
    if st.merges >= 1 {
        info.label("merge perspective over a written braid index");
    }
    if st.braids >= 1 {
        info.label("fact perspective written with write_facts");
    }
    if st.empty_fact_segments >= 1 {
        info.label("segment without fact writes (index reused)");
    }
    if st.reopens >= 1 {
        info.label("file reopened");
    }
    if st.commits >= 1 {
        info.label("commit + fact cache checked");
    }
    if multi_init {
        info.label("init segment with several commands");
    }
    if st.segments >= 8 {
        info.label("segments>=8");
    }
    let _ = st.head_opens;
    Ok(())
}

fn check_mem(lvl: u8) -> impl Fn(&Case, &mut CaseInfo) -> CheckResult + Sync {
    move |c, info| run_case(&|| LinearStorageProvider::new(Manager::new()), false, lvl, c, info)
}

fn check_file(c: &Case, info: &mut CaseInfo) -> CheckResult {
    let dir = if std::path::Path::new("/dev/shm").is_dir() { tempfile::tempdir_in("/dev/shm") } else { tempfile::tempdir() }
        .map_err(|e| Failure::new("harness: tempdir", format!("{e}")))?;
    let path = dir.path().to_path_buf();
    let r = run_case(
        &|| LinearStorageProvider::new(FileManager::new(&path).expect("FileManager::new on a fresh temp dir")),
        true,
        0,
        c,
        info,
    );
    drop(dir);
    r
}

fn op_strategy(ncomp: u8, maxlen: usize) -> impl Strategy<Value = Op> {
    prop_oneof![
        12 => sw::fop(3, ncomp, maxlen, 3).prop_map(Op::Fact),
        4 => Just(Op::AddCmd),
        4 => any::<bool>().prop_map(|commit| Op::Write { commit }),
        3 => any::<u16>().prop_map(|sel| Op::Open { sel }),
        1 => (any::<u16>(), prop::collection::vec(sw::fop(3, ncomp, maxlen, 3), 0..5), any::<u16>())
            .prop_map(|(at, ops, other)| Op::Braid { at, ops, other }),
        1 => Just(Op::Reopen),
    ]
}

fn general(maxops: usize) -> impl Strategy<Value = Case> {
    (
        prop::collection::vec(sw::fop(3, 5, 3, 2), 0..6),
        prop_oneof![4 => Just(Vec::new()), 1 => prop::collection::vec(prop::collection::vec(sw::fop(3, 5, 3, 3), 0..3), 1..3)],
        prop::collection::vec(op_strategy(5, 3), 0..maxops),
    )
        .prop_map(|(init, init_extra, ops)| Case { init, init_extra, ops })
}

/// Long single ancestry lines: many rounds of (a few writes, maybe a command boundary, write the
/// segment), with occasional branching to an older / mid-segment location.
fn deep(maxrounds: usize, ncomp: u8) -> impl Strategy<Value = Case> {
    let round = (
        prop::collection::vec(sw::fop(2, ncomp, 2, 6), 1..4),
        prop_oneof![3 => Just(None), 1 => prop::collection::vec(sw::fop(2, ncomp, 2, 6), 1..3).prop_map(Some)],
        prop::bool::weighted(0.2),
        prop_oneof![
            12 => Just(None),
            1 => any::<u16>().prop_map(|sel| Some(Op::Open { sel })),
            1 => (any::<u16>(), prop::collection::vec(sw::fop(2, ncomp, 2, 6), 0..3), any::<u16>()).prop_map(|(at, ops, other)| Some(Op::Braid { at, ops, other })),
        ],
    )
        .prop_map(|(a, b, commit, after)| {
            let mut v: Vec<Op> = a.into_iter().map(Op::Fact).collect();
            if let Some(b) = b {
                v.push(Op::AddCmd);
                v.extend(b.into_iter().map(Op::Fact));
            }
            v.push(Op::Write { commit });
            v.extend(after);
            v
        });
    (prop::collection::vec(sw::fop(2, ncomp, 2, 1), 0..4), prop::collection::vec(round, 18..maxrounds))
        .prop_map(|(init, rounds)| Case { init, init_extra: Vec::new(), ops: rounds.into_iter().flatten().collect() })
}

pub fn run(ctx: &Ctx) -> ! {
    let mut rep = Report::new(ctx, "exploration");
    rep.assume("fact writes are always followed by add_command before the perspective is written (every caller runs a rule and then adds its command); the harness adds the command itself when a write op arrives with writes pending");
    rep.assume("merge perspectives are opened over a fact index produced by write_facts on this storage, with two stored locations neither of which is an ancestor of the other and their highest common ancestor as LCA");
    rep.assume("committed head sets are single-head with that head's segment fact index as fact cache (multi-head braided caches are C03/C04)");
    let t0 = std::time::Instant::now();
    let tm = |n: &str| {
        if std::env::var_os("VERIF_TIMING").is_some() {
            eprintln!("timing: {n} done at {:.1}s", t0.elapsed().as_secs_f64());
        }
    };
    let rule = "non-trivial = >=17 non-empty fact-index writes on one ancestry line (so LinearStorage::compact ran) or a delete of a fact whose value lives in an older index";
    rep.explore(
        "mem_every_step",
        &format!("in-memory LinearStorageProvider: init perspective + 0..30 ops (fact insert/delete incl. live keys, add_command, write segment [+commit], open linear perspective at any stored command, fact perspective + write_facts + merge perspective, commit+re-verify); after EVERY op all exact/prefix queries of the case's key universe on the live perspective, after every segment write on segment.facts(), on get_fact_perspective at every command of it and on get_linear_perspective at every mid-segment command (the one at the head is checked when it is next opened), at the end again on every stored segment's fact index and mid-segment fact perspectives; {rule}"),
        || general(30),
        ctx.pick(1_200, 15_000),
        check_mem(2),
    );
    tm("mem_every_step");
    rep.explore(
        "mem_general",
        &format!("same with 0..70 ops; after a fact write only the written key and its prefixes are re-queried, the full universe at every command boundary / segment write / perspective open; {rule}"),
        || general(70),
        ctx.pick(2_000, 25_000),
        check_mem(1),
    );
    tm("mem_general");
    rep.explore(
        "mem_deep_chain",
        &format!("in-memory: 18..37 rounds of (1-3 writes biased to live keys, optional command boundary, write segment, sometimes branch/braid) => fact index chains past MAX_FACT_INDEX_DEPTH=16; {rule}"),
        || deep(38, 3),
        ctx.pick(600, 7_500),
        check_mem(1),
    );
    tm("mem_deep_chain");
    rep.explore(
        "file_general",
        &format!("same op language (0..40 ops) on LinearStorageProvider<FileManager> in a fresh temp dir (Reopen really drops the provider and reopens the graph file); full-universe checks on every written segment (fact index, mid-segment fact perspectives), every opened perspective, every commit and at the end; {rule}"),
        || general(40),
        ctx.pick(300, 3_000),
        check_file,
    );
    tm("file_general");
    rep.explore(
        "file_deep_chain",
        &format!("deep-chain generator (18..23 rounds, 2 key components) on the file backend; {rule}"),
        || deep(24, 2),
        ctx.pick(100, 1_000),
        check_file,
    );
    rep.finish()
}
