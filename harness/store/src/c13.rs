//! C13: checkpoint / revert on graph perspectives vs model snapshots.
use aranya_runtime::{
    Address, CmdId, Location, MaxCut, PolicyId, Prior, Priority, SegmentIndex,
    storage::{
        Checkpoint, Perspective, Revertable, Segment, Storage, StorageProvider,
        linear::{LinearStorageProvider, libc::FileManager, testing::Manager},
    },
};
use aranya_runtime::Command as _;
use proptest::prelude::*;
use serde::{Deserialize, Serialize};
use vcommon::{CaseInfo, CheckResult, Ctx, Failure, Report, ensure, idx};

use crate::sw::{self, Cmd, FOp, Model, Universe};

/// Signature of the known finding F6: the checkpoint was taken while fact writes were pending
/// (made since the last `add_command`), and after `revert` the perspective shows exactly the
/// state of the last command boundary, i.e. those pending writes are lost too.
pub const KNOWN_PENDING: &str = "linear-perspective: checkpoint taken with pending writes";

#[derive(Clone, Debug, Serialize, Deserialize)]
pub enum ROp {
    Fact(FOp),
    AddCmd,
    Checkpoint,
    /// An `add_command` the perspective must refuse: the command's parent is not the perspective head.
    /// `how` (clamped to 0..=5): 0 = parent id never seen, right max cut; 1 = head id with max cut + 1; 2 = head id with max
    /// cut - 1 (or + 2 at max cut 0); 3 = stale parent (the head's own parent: previous command of this perspective or the
    /// address/merge pair the perspective was opened on); 4 = no parent / a single parent on an unrooted empty perspective;
    /// 5 = a merge command `Merge(head, other)` offered to a perspective whose head is a single command. When the head is
    /// `None` or a merge pair (empty unrooted / merge perspective) every `how` degenerates to a single wrong parent.
    Refused { how: u8 },
    /// Revert to one of the outstanding checkpoints (it and all later ones are consumed).
    Revert { sel: u16 },
}

#[derive(Clone, Debug, Serialize, Deserialize)]
pub struct Case {
    /// 0 = unrooted perspective (no prior facts), 1 = linear perspective at a stored segment head,
    /// 2 = linear perspective opened mid-segment, 3 = merge perspective over a written braid index.
    kind: u8,
    base_init: Vec<FOp>,
    base_a: Vec<FOp>,
    base_b: Vec<FOp>,
    base_c: Vec<FOp>,
    ops: Vec<ROp>,
}

fn serr(sig: &str, e: impl std::fmt::Debug) -> Failure {
    Failure::new(sig, format!("{e:?}"))
}

struct CmdM {
    id: CmdId,
    addr: Address,
    after: Model,
}

struct Cp {
    token: Checkpoint,
    ncmds: usize,
    facts: Model,
    boundary: Model,
    pending: usize,
    head: Prior<Address>,
    /// model "clock" when the checkpoint was taken (to tell whether anything happened since)
    clock: usize,
    /// index of the Checkpoint op
    op: usize,
}

struct T<P> {
    p: P,
    cur: Model,
    /// facts as of the last command boundary (or the base state)
    boundary: Model,
    cmds: Vec<CmdM>,
    pending: usize,
    head: Prior<Address>,
    cps: Vec<Cp>,
    all_ids: Vec<CmdId>,
    ctr: u64,
    step: usize,
    clock: usize,
}

impl<P: Perspective + Revertable> T<P> {
    fn observe(&self, uni: &Universe, facts: &Model, ncmds: usize, head: &Prior<Address>, what: &str) -> CheckResult {
        sw::check_all(&self.p, facts, uni, what)?;
        let ha = self.p.head_address().map_err(|e| serr("head_address failed", e))?;
        ensure!(ha == *head, format!("{what}: head address differs"), "got {ha:?} want {head:?}");
        for id in &self.all_ids {
            let want = self.cmds[..ncmds].iter().any(|c| c.id == *id);
            let got = self.p.includes(*id);
            ensure!(got == want, format!("{what}: includes() differs"), "id {id} got {got} want {want}");
        }
        Ok(())
    }

    fn add_cmd(&mut self) -> CheckResult {
        self.ctr += 1;
        let prio = match self.head {
            Prior::None => Priority::Init,
            Prior::Merge(..) => Priority::Merge,
            Prior::Single(_) => Priority::Basic((self.ctr % 5) as u32),
        };
        let cmd = Cmd {
            id: sw::cmd_id(1000 + self.ctr),
            parent: self.head,
            prio,
            policy: if matches!(self.head, Prior::None) { Some(vec![1u8; 4]) } else { None },
            data: self.ctr.to_le_bytes().to_vec(),
        };
        let r = self.p.add_command(&cmd);
        ensure!(r.is_ok(), "add_command failed", "{r:?}");
        ensure!(r.as_ref().ok() == Some(&(self.cmds.len() + 1)), "add_command returned the wrong count", "{r:?} with {} commands before", self.cmds.len());
        let addr = Address { id: cmd.id, max_cut: MaxCut::new(sw::next_max_cut(&self.head)) };
        self.cmds.push(CmdM { id: cmd.id, addr, after: self.cur.clone() });
        self.all_ids.push(cmd.id);
        self.head = Prior::Single(addr);
        self.boundary = self.cur.clone();
        self.pending = 0;
        self.clock += 1;
        Ok(())
    }

    /// Offers a command whose parent is not the head. The model: it is refused and NOTHING changes (commands,
    /// head, facts including the writes pending since the last command); the caller's `observe` after the op and
    /// every later checkpoint/revert/write check that.
    fn refused_cmd(&mut self, how: u8, first_parent: &Prior<Address>) -> CheckResult {
        self.ctr += 1;
        let fresh = Address { id: sw::cmd_id(500_000 + self.ctr), max_cut: MaxCut::new(0) };
        let (parent, prio): (Prior<Address>, Priority) = match self.head {
            Prior::Single(h) => {
                let mc = h.max_cut.get();
                match how.min(5) {
                    0 => (Prior::Single(Address { id: fresh.id, max_cut: h.max_cut }), Priority::Basic(1)),
                    1 => (Prior::Single(Address { id: h.id, max_cut: MaxCut::new(mc + 1) }), Priority::Basic(1)),
                    2 => (Prior::Single(Address { id: h.id, max_cut: MaxCut::new(if mc == 0 { 2 } else { mc - 1 }) }), Priority::Basic(1)),
                    3 => {
                        let n = self.cmds.len();
                        let stale = if n >= 2 { Prior::Single(self.cmds[n - 2].addr) } else if n == 1 { *first_parent } else { Prior::None };
                        let prio = match stale {
                            Prior::None => Priority::Init,
                            Prior::Merge(..) => Priority::Merge,
                            Prior::Single(_) => Priority::Basic(2),
                        };
                        (stale, prio)
                    }
                    4 => (Prior::None, Priority::Init),
                    _ => (Prior::Merge(h, Address { id: fresh.id, max_cut: MaxCut::new(mc) }), Priority::Merge),
                }
            }
            // empty unrooted perspective / merge perspective before its merge command: a single parent is wrong
            Prior::None | Prior::Merge(..) => (Prior::Single(fresh), Priority::Basic(1)),
        };
        debug_assert!(parent != self.head);
        let cmd = Cmd {
            id: sw::cmd_id(600_000 + self.ctr),
            parent,
            prio,
            policy: if matches!(parent, Prior::None) { Some(vec![1u8; 4]) } else { None },
            data: self.ctr.to_le_bytes().to_vec(),
        };
        let r = self.p.add_command(&cmd);
        // the refused command must never show up
        self.all_ids.push(cmd.id);
        ensure!(r.is_err(), "add_command accepted a command whose parent is not the perspective head", "head {:?}, parent {:?}: {r:?}", self.head, parent);
        Ok(())
    }
}

#[derive(Default)]
struct Stats {
    reverts: usize,
    reverts_after_write: usize,
    dropped_cmds: usize,
    dropped_pending_only: usize,
    noop_reverts: usize,
    nested: usize,
    rewritten_cp: usize,
    cp_pending: usize,
    revert_no_cp: usize,
    refused: usize,
    refused_with_pending: usize,
    /// revert to a checkpoint such that a refused add_command lies between the checkpoint and the revert
    revert_over_refused: usize,
    /// ... and fact writes were pending when it was refused, and no command was accepted since the checkpoint
    revert_over_refused_pending_only: usize,
    /// a command was accepted (or the final segment written) with writes that were pending across a refusal
    accepted_after_refused_pending: usize,
}

fn run_case<SP: StorageProvider>(mut sp: SP, clean: bool, c: &Case, info: &mut CaseInfo) -> CheckResult {
    let all = c.base_init.iter().chain(&c.base_a).chain(&c.base_b).chain(&c.base_c).chain(c.ops.iter().filter_map(|o| match o {
        ROp::Fact(f) => Some(f),
        _ => None,
    }));
    let uni = Universe::new(all);
    let pol = PolicyId::new(0);
    let mut step = 0usize;
    let mut st = Stats::default();

    // writes a batch into a perspective and the model
    fn batch<Q: aranya_runtime::storage::QueryMut>(q: &mut Q, m: &mut Model, ops: &[FOp], step: &mut usize) -> CheckResult {
        for o in ops {
            *step += 1;
            if let Some((k, v)) = o.resolve(m, *step) {
                sw::apply(q, m, &k, &v)?;
            }
        }
        Ok(())
    }
    let mk = |n: u64, parent: Prior<Address>, prio: Priority| Cmd {
        id: sw::cmd_id(n),
        parent,
        prio,
        policy: if matches!(parent, Prior::None) { Some(vec![1u8; 4]) } else { None },
        data: n.to_le_bytes().to_vec(),
    };
    let addr_of = |c: &Cmd| Address { id: c.id, max_cut: MaxCut::new(sw::next_max_cut(&c.parent)) };

    // ---- the perspective under test and the stored base it sits on
    let kind = c.kind.min(3);
    let mut gid = None;
    let (p, base, head): (SP::Perspective, Model, Prior<Address>) = if kind == 0 {
        (sp.new_perspective(pol), Model::new(), Prior::None)
    } else {
        let mut m = Model::new();
        let mut p0 = sp.new_perspective(pol);
        batch(&mut p0, &mut m, &c.base_init, &mut step)?;
        let init = mk(1, Prior::None, Priority::Init);
        p0.add_command(&init).map_err(|e| serr("setup: add_command failed", e))?;
        let m_init = m.clone();
        let (g, storage) = sp.new_storage(p0).map_err(|e| serr("setup: new_storage failed", e))?;
        gid = Some(g);
        let h = storage.get_heads().map_err(|e| serr("setup: get_heads failed", e))?.as_slice()[0];
        let init_loc = Location::new(h.segment, MaxCut::new(0));
        let init_addr = addr_of(&init);
        // segment A: two commands
        let mut pa = storage.get_linear_perspective(init_loc).map_err(|e| serr("setup: get_linear_perspective failed", e))?;
        batch(&mut pa, &mut m, &c.base_a, &mut step)?;
        let a1 = mk(2, Prior::Single(init_addr), Priority::Basic(1));
        pa.add_command(&a1).map_err(|e| serr("setup: add_command failed", e))?;
        let m_a1 = m.clone();
        batch(&mut pa, &mut m, &c.base_b, &mut step)?;
        let a2 = mk(3, Prior::Single(addr_of(&a1)), Priority::Basic(2));
        pa.add_command(&a2).map_err(|e| serr("setup: add_command failed", e))?;
        let m_a2 = m.clone();
        let seg_a = storage.write(pa).map_err(|e| serr("setup: write failed", e))?;
        let a_idx: SegmentIndex = seg_a.index();
        drop(seg_a);
        let a1_loc = Location::new(a_idx, MaxCut::new(1));
        let a2_loc = Location::new(a_idx, MaxCut::new(2));
        match kind {
            1 => (
                storage.get_linear_perspective(a2_loc).map_err(|e| serr("setup: get_linear_perspective failed", e))?,
                m_a2,
                Prior::Single(addr_of(&a2)),
            ),
            2 => (
                storage.get_linear_perspective(a1_loc).map_err(|e| serr("setup: get_linear_perspective failed", e))?,
                m_a1,
                Prior::Single(addr_of(&a1)),
            ),
            _ => {
                // segment B from init, then a braid index over init + everything, then the merge
                let mut mb = m_init.clone();
                let mut pb = storage.get_linear_perspective(init_loc).map_err(|e| serr("setup: get_linear_perspective failed", e))?;
                batch(&mut pb, &mut mb, &c.base_c, &mut step)?;
                let b1 = mk(4, Prior::Single(init_addr), Priority::Basic(3));
                pb.add_command(&b1).map_err(|e| serr("setup: add_command failed", e))?;
                let seg_b = storage.write(pb).map_err(|e| serr("setup: write failed", e))?;
                let b1_loc = Location::new(seg_b.index(), MaxCut::new(1));
                drop(seg_b);
                let mut braid = m_init.clone();
                let mut fp = storage.get_fact_perspective(init_loc).map_err(|e| serr("setup: get_fact_perspective failed", e))?;
                batch(&mut fp, &mut braid, &c.base_a, &mut step)?;
                batch(&mut fp, &mut braid, &c.base_c, &mut step)?;
                batch(&mut fp, &mut braid, &c.base_b, &mut step)?;
                let fi = storage.write_facts(fp).map_err(|e| serr("setup: write_facts failed", e))?;
                let pm = storage
                    .new_merge_perspective(a2_loc, b1_loc, init_loc, pol, fi)
                    .map_err(|e| serr("setup: new_merge_perspective failed", e))?;
                (pm, braid, Prior::Merge(addr_of(&a2), addr_of(&b1)))
            }
        }
    };
    let first_parent = head;

    let mut t = T {
        p,
        cur: base.clone(),
        boundary: base,
        cmds: Vec::new(),
        pending: 0,
        head,
        cps: Vec::new(),
        all_ids: Vec::new(),
        ctr: 0,
        step,
        clock: 0,
    };
    t.observe(&uni, &t.cur, 0, &t.head, "fresh perspective")?;
    if kind == 3 {
        // a merge perspective always starts with its merge command
        t.add_cmd()?;
    }

    // (op index, writes pending?, number of commands) at every refused add_command
    let mut refused_at: Vec<(usize, bool, usize)> = Vec::new();
    let mut refused_pending_open = false;
    for (i, o) in c.ops.iter().enumerate() {
        match o {
            ROp::Fact(f) => {
                t.step += 1;
                if let Some((k, v)) = f.resolve(&t.cur, t.step) {
                    sw::apply(&mut t.p, &mut t.cur, &k, &v)?;
                    t.pending += 1;
                    t.clock += 1;
                    sw::check_near(&t.p, &t.cur, &k, "perspective after write")?;
                }
            }
            ROp::AddCmd => {
                if refused_pending_open {
                    st.accepted_after_refused_pending += 1;
                    refused_pending_open = false;
                }
                t.add_cmd()?
            }
            ROp::Refused { how } => {
                st.refused += 1;
                if t.pending > 0 {
                    st.refused_with_pending += 1;
                    refused_pending_open = true;
                }
                refused_at.push((i, t.pending > 0, t.cmds.len()));
                t.refused_cmd(*how, &first_parent).map_err(|f| Failure::new(f.signature, format!("op#{i}: {}", f.detail)))?;
            }
            ROp::Checkpoint => {
                if t.pending > 0 {
                    if clean {
                        // excluded shape (known finding): put the pending writes into a command first
                        st.rewritten_cp += 1;
                        t.add_cmd()?;
                    } else {
                        st.cp_pending += 1;
                    }
                }
                let token = t.p.checkpoint();
                t.cps.push(Cp {
                    token,
                    ncmds: t.cmds.len(),
                    facts: t.cur.clone(),
                    boundary: t.boundary.clone(),
                    pending: t.pending,
                    head: t.head,
                    clock: t.clock,
                    op: i,
                });
            }
            ROp::Revert { sel } => {
                if t.cps.is_empty() {
                    st.revert_no_cp += 1;
                    continue;
                }
                let k = idx(*sel, t.cps.len());
                if k + 1 < t.cps.len() {
                    st.nested += 1;
                }
                t.cps.truncate(k + 1);
                let cp = t.cps.pop().expect("checkpoint");
                st.reverts += 1;
                if t.clock == cp.clock {
                    st.noop_reverts += 1;
                } else {
                    st.reverts_after_write += 1;
                    if t.cmds.len() > cp.ncmds {
                        st.dropped_cmds += 1;
                    } else {
                        st.dropped_pending_only += 1;
                    }
                }
                if refused_at.iter().any(|(at, _, _)| *at > cp.op) {
                    st.revert_over_refused += 1;
                }
                if t.cmds.len() == cp.ncmds && refused_at.iter().any(|(at, pend, n)| *at > cp.op && *pend && *n == cp.ncmds) {
                    st.revert_over_refused_pending_only += 1;
                }
                refused_pending_open = false;
                let r = t.p.revert(cp.token);
                ensure!(r.is_ok(), "revert returned an error", "op#{i}: {r:?}");
                // the model: exactly the snapshot
                t.cmds.truncate(cp.ncmds);
                t.cur = cp.facts.clone();
                t.boundary = cp.boundary.clone();
                t.pending = cp.pending;
                t.head = cp.head;
                t.clock += 1;
                if let Err(f) = t.observe(&uni, &cp.facts, cp.ncmds, &cp.head, "after revert") {
                    if cp.pending > 0
                        && cp.facts != cp.boundary
                        && t.observe(&uni, &cp.boundary, cp.ncmds, &cp.head, "after revert").is_ok()
                    {
                        return Err(Failure::new(
                            KNOWN_PENDING,
                            format!("op#{i}: checkpoint had {} pending writes; after revert the perspective shows the last command boundary instead of the checkpoint state: {}", cp.pending, f.detail),
                        ));
                    }
                    return Err(Failure::new(f.signature, format!("op#{i}: {}", f.detail)));
                }
            }
        }
        t.observe(&uni, &t.cur, t.cmds.len(), &t.head, "perspective")?;
    }

    // ---- persist the perspective and read it back: reverted commands / writes must not be stored
    if t.pending > 0 || t.cmds.is_empty() {
        if refused_pending_open {
            st.accepted_after_refused_pending += 1;
        }
        t.add_cmd()?;
    }
    let T { p, cur, cmds, .. } = t;
    let seg_index = if kind == 0 {
        let (g, storage) = sp.new_storage(p).map_err(|e| serr("new_storage failed", e))?;
        gid = Some(g);
        storage.get_heads().map_err(|e| serr("get_heads failed", e))?.as_slice()[0].segment
    } else {
        let storage = sp.get_storage(gid.expect("graph")).map_err(|e| serr("get_storage failed", e))?;
        storage.write(p).map_err(|e| serr("write(perspective) failed", e))?.index()
    };
    let storage = sp.get_storage(gid.expect("graph")).map_err(|e| serr("get_storage failed", e))?;
    let first_mc = sw::next_max_cut(&first_parent);
    let seg = storage.get_segment(Location::new(seg_index, MaxCut::new(first_mc))).map_err(|e| serr("get_segment failed", e))?;
    ensure!(seg.shortest_max_cut().get() == first_mc, "stored segment starts at the wrong max cut", "{} vs {first_mc}", seg.shortest_max_cut());
    for (j, cm) in cmds.iter().enumerate() {
        let loc = Location::new(seg_index, cm.addr.max_cut);
        let Some(got) = seg.get_command(loc) else {
            return Err(Failure::new("stored segment lacks a command the perspective held", format!("command #{j} at {loc:?}")));
        };
        ensure!(got.id() == cm.id, "stored segment holds a different command", "command #{j}: {} vs {}", got.id(), cm.id);
        let fp = storage.get_fact_perspective(loc).map_err(|e| serr("get_fact_perspective failed", e))?;
        sw::check_all(&fp, &cm.after, &uni, "stored segment: facts as of a command")?;
    }
    let past = Location::new(seg_index, MaxCut::new(first_mc + cmds.len() as u64));
    ensure!(seg.get_command(past).is_none(), "stored segment holds more commands than the perspective", "{past:?}");
    let facts = seg.facts().map_err(|e| serr("segment.facts failed", e))?;
    sw::check_all(&facts, &cur, &uni, "stored segment fact index")?;

    if st.reverts_after_write >= 1 {
        info.nontrivial();
    }
    info.label(["kind: unrooted (no prior facts)", "kind: at segment head", "kind: mid-segment", "kind: merge perspective"][kind as usize]);
    if st.dropped_cmds >= 1 {
        info.label("revert dropped commands");
    }
    if st.dropped_pending_only >= 1 {
        info.label("revert dropped pending writes only (failed rule)");
    }
    if st.noop_reverts >= 1 {
        info.label("revert with nothing to undo");
    }
    if st.nested >= 1 {
        info.label("revert past newer checkpoints");
    }
    if st.reverts >= 3 {
        info.label("reverts>=3");
    }
    if st.rewritten_cp >= 1 {
        info.label("EXCLUDED shape rewritten: checkpoint with pending writes -> add_command first");
    }
    if st.cp_pending >= 1 {
        info.label("checkpoint taken with pending writes");
    }
    if st.refused >= 1 {
        info.label("add_command refused (parent is not the head)");
    }
    if st.refused_with_pending >= 1 {
        info.label("add_command refused while fact writes were pending");
    }
    if st.revert_over_refused >= 1 {
        info.label("revert across a refused add_command");
    }
    if st.revert_over_refused_pending_only >= 1 {
        info.label("revert of {writes, refused add_command} with no command accepted since the checkpoint");
    }
    if st.accepted_after_refused_pending >= 1 {
        info.label("command accepted/stored with writes that were pending across a refusal");
    }
    let _ = st.revert_no_cp;
    Ok(())
}

fn rop() -> impl Strategy<Value = ROp> {
    prop_oneof![
        8 => sw::fop(3, 4, 2, 3).prop_map(ROp::Fact),
        3 => Just(ROp::AddCmd),
        3 => Just(ROp::Checkpoint),
        2 => (0u8..6).prop_map(|how| ROp::Refused { how }),
        3 => any::<u16>().prop_map(|sel| ROp::Revert { sel }),
    ]
}

fn case() -> impl Strategy<Value = Case> {
    let b = || prop::collection::vec(sw::fop(3, 4, 2, 2), 0..5);
    (0u8..4, b(), b(), b(), b(), prop::collection::vec(rop(), 0..40))
        .prop_map(|(kind, base_init, base_a, base_b, base_c, ops)| Case { kind, base_init, base_a, base_b, base_c, ops })
}

fn check_mem(clean: bool) -> impl Fn(&Case, &mut CaseInfo) -> CheckResult + Sync {
    move |c, info| run_case(LinearStorageProvider::new(Manager::new()), clean, c, info)
}

fn check_file(clean: bool) -> impl Fn(&Case, &mut CaseInfo) -> CheckResult + Sync {
    move |c, info| {
        let dir = if std::path::Path::new("/dev/shm").is_dir() { tempfile::tempdir_in("/dev/shm") } else { tempfile::tempdir() }
            .map_err(|e| Failure::new("harness: tempdir", format!("{e}")))?;
        let sp = LinearStorageProvider::new(FileManager::new(dir.path()).expect("FileManager::new on a fresh temp dir"));
        let r = run_case(sp, clean, c, info);
        drop(dir);
        r
    }
}

pub fn run(ctx: &Ctx) -> ! {
    let mut rep = Report::new(ctx, "exploration");
    rep.assume("a checkpoint is used for at most one revert and not after a revert to an older checkpoint (Checkpoint is neither Clone nor Copy and revert consumes it)");
    let dom = "LinearPerspective of 4 kinds (unrooted / at a stored segment head / opened mid-segment / merge perspective over a written braid index) x 0..40 ops of fact insert/delete (incl. live keys), add_command, REFUSED add_command (a command whose parent is not the perspective head: unknown id / head id with a wrong max cut / stale parent / no parent / merge parent; must return an error and change nothing - the writes pending at that moment stay pending), checkpoint, revert(to any outstanding checkpoint); after every op all exact+prefix queries of the key universe, head_address and includes(id) for every command id ever added vs the model; after revert vs the snapshot taken at checkpoint; finally the perspective is written and the stored segment's commands, per-command facts and fact index are compared; non-trivial = a revert after >=1 later write or added command";
    rep.explore(
        "linear_clean_checkpoint",
        &format!("{dom}. Checkpoints are only taken at command boundaries (a Checkpoint op with writes pending first adds a command; counted in the labels) - the shape every runtime caller uses"),
        case,
        ctx.pick(12_000, 150_000),
        check_mem(true),
    );
    rep.explore(
        "linear_any_checkpoint",
        &format!("{dom}. Checkpoints anywhere, including while writes are pending"),
        case,
        ctx.pick(5_000, 60_000),
        check_mem(false),
    );
    rep.explore(
        "file_clean_checkpoint",
        "the clean-checkpoint part on LinearStorageProvider<FileManager> in a fresh temp dir",
        case,
        ctx.pick(500, 6_000),
        check_file(true),
    );
    crate::c13s::add_parts(&mut rep, ctx);
    rep.finish()
}
