//! C13, ephemeral sessions: `Session::action` / `Session::receive` revert the session when the
//! policy fails, including after the rule already wrote facts. Driven by a scripted policy that
//! lives in this file (the session perspective is only reachable through a `Policy`).
use std::cell::{Cell, RefCell};

use aranya_runtime::{
    Address, ClientState, CmdId, Command, MemSpill, MergeIds, NullSink, Policy, PolicyError, PolicyId, PolicyStore, Prior,
    Priority, RuntimeBuffers, Sink,
    policy::{ActionPlacement, CommandPlacement},
    storage::{FactPerspective, Perspective, StorageProvider, linear::testing::MemStorageProvider},
};
use proptest::prelude::*;
use serde::{Deserialize, Serialize};
use vcommon::{CaseInfo, CheckResult, Ctx, Failure, Report, ensure};

use crate::sw::{self, FOp, MKey, Model, Universe};

/// What one command's rule does: the writes in order, failing after `fail_after` of them
/// (`None` = the rule succeeds).
#[derive(Clone, Debug, Serialize, Deserialize)]
struct Script {
    writes: Vec<(MKey, Option<Vec<u8>>)>,
    fail_after: Option<usize>,
}

struct ScriptCmd {
    id: CmdId,
    parent: Prior<Address>,
    prio: Priority,
    policy: Option<Vec<u8>>,
    data: Vec<u8>,
}

impl Command for ScriptCmd {
    fn priority(&self) -> Priority {
        self.prio.clone()
    }
    fn id(&self) -> CmdId {
        self.id
    }
    fn parent(&self) -> Prior<Address> {
        self.parent
    }
    fn policy(&self) -> Option<&[u8]> {
        self.policy.as_deref()
    }
    fn bytes(&self) -> &[u8] {
        &self.data
    }
}

enum Act<'a> {
    /// Publish one command per script, in order; the action fails as soon as a rule fails.
    Publish(&'a [Script]),
    /// Compare every query of the universe against the model; the verdict goes to `out`.
    Probe { model: &'a Model, uni: &'a Universe, out: &'a RefCell<CheckResult> },
}

struct ScriptPolicy {
    counter: Cell<u64>,
}

fn run_script(s: &Script, facts: &mut impl FactPerspective) -> Result<(), PolicyError> {
    for (i, (k, v)) in s.writes.iter().enumerate() {
        if s.fail_after == Some(i) {
            return Err(PolicyError::Rejected);
        }
        match v {
            Some(v) => facts.insert(k.0.clone(), sw::to_keys(&k.1), v.as_slice().into()).map_err(|_| PolicyError::Write)?,
            None => facts.delete(k.0.clone(), sw::to_keys(&k.1)).map_err(|_| PolicyError::Write)?,
        }
    }
    if s.fail_after.is_some_and(|n| n >= s.writes.len()) {
        return Err(PolicyError::Rejected);
    }
    Ok(())
}

impl Policy for ScriptPolicy {
    type Action<'a> = Act<'a>;
    type Effect = ();
    type Command<'a> = ScriptCmd;

    fn serial(&self) -> u32 {
        0
    }

    fn call_rule(
        &self,
        command: &impl Command,
        facts: &mut impl FactPerspective,
        _sink: &mut impl Sink<()>,
        _placement: CommandPlacement,
    ) -> Result<(), PolicyError> {
        let s: Script = postcard::from_bytes(command.bytes()).map_err(|_| PolicyError::Read)?;
        run_script(&s, facts)
    }

    fn call_action(
        &self,
        action: Act<'_>,
        facts: &mut impl Perspective,
        _sink: &mut impl Sink<()>,
        _placement: ActionPlacement,
    ) -> Result<(), PolicyError> {
        match action {
            Act::Publish(scripts) => {
                for s in scripts {
                    let n = self.counter.get() + 1;
                    self.counter.set(n);
                    let parent = facts.head_address()?;
                    let cmd = ScriptCmd {
                        id: sw::cmd_id(50_000 + n),
                        parent,
                        prio: if matches!(parent, Prior::None) { Priority::Init } else { Priority::Basic(0) },
                        policy: if matches!(parent, Prior::None) { Some(vec![7u8; 4]) } else { None },
                        data: postcard::to_allocvec(s).map_err(|_| PolicyError::Write)?,
                    };
                    run_script(s, facts)?;
                    facts.add_command(&cmd).map_err(|_| PolicyError::Write)?;
                }
                Ok(())
            }
            Act::Probe { model, uni, out } => {
                *out.borrow_mut() = sw::check_all(&*facts, model, uni, "session");
                Ok(())
            }
        }
    }

    fn merge<'a>(&self, _target: &'a mut [u8], ids: MergeIds) -> Result<ScriptCmd, PolicyError> {
        // single-head graphs only: never called by this harness
        let (l, r): (Address, Address) = ids.into();
        let n = self.counter.get() + 1;
        self.counter.set(n);
        Ok(ScriptCmd {
            id: sw::cmd_id(90_000 + n),
            parent: Prior::Merge(l, r),
            prio: Priority::Merge,
            policy: None,
            data: postcard::to_allocvec(&Script { writes: Vec::new(), fail_after: None }).map_err(|_| PolicyError::Write)?,
        })
    }
}

struct ScriptStore {
    policy: ScriptPolicy,
}

impl PolicyStore for ScriptStore {
    type Policy = ScriptPolicy;
    type Effect = ();
    fn add_policy(&mut self, _policy: &[u8]) -> Result<PolicyId, PolicyError> {
        Ok(PolicyId::new(0))
    }
    fn get_policy(&self, _id: PolicyId) -> Result<&ScriptPolicy, PolicyError> {
        Ok(&self.policy)
    }
}

/// Message sink of a session: counts the serialized commands, honours rollback.
#[derive(Default)]
struct MsgSink {
    committed: Vec<Vec<u8>>,
    open: Vec<Vec<u8>>,
}

impl<'b> Sink<&'b [u8]> for MsgSink {
    fn begin(&mut self) {}
    fn consume(&mut self, effect: &'b [u8]) {
        self.open.push(effect.to_vec());
    }
    fn rollback(&mut self) {
        self.open.clear();
    }
    fn commit(&mut self) {
        self.committed.append(&mut self.open);
    }
}

#[derive(Clone, Debug, Serialize, Deserialize)]
struct CmdSpec {
    writes: Vec<FOp>,
    /// 0 = succeeds; n>0 = fails after min(n-1, #writes) writes
    fail: u8,
}

#[derive(Clone, Debug, Serialize, Deserialize)]
enum SOp {
    /// `Session::action` publishing these commands.
    Action(Vec<CmdSpec>),
    /// `Session::receive` of one command (as serialized by a peer's session).
    Receive(CmdSpec),
}

#[derive(Clone, Debug, Serialize, Deserialize)]
pub struct SCase {
    /// on-graph history the session starts from: the init command's writes, then further actions
    init: Vec<FOp>,
    graph: Vec<Vec<FOp>>,
    ops: Vec<SOp>,
}

fn serr(sig: &str, e: impl std::fmt::Debug) -> Failure {
    Failure::new(sig, format!("{e:?}"))
}

/// Resolves a command spec against the model state `m` (as the rule would see it), returning the
/// script and the model after the writes that happen before the failure point.
fn build(spec: &CmdSpec, m: &mut Model, step: &mut usize) -> Script {
    let mut writes = Vec::new();
    let limit = if spec.fail == 0 { usize::MAX } else { spec.fail as usize - 1 };
    for o in &spec.writes {
        *step += 1;
        let Some((k, v)) = o.resolve(m, *step) else { continue };
        if writes.len() < limit {
            match &v {
                Some(v) => {
                    m.insert(k.clone(), v.clone());
                }
                None => {
                    m.remove(&k);
                }
            }
        }
        writes.push((k, v));
    }
    let fail_after = if spec.fail == 0 { None } else { Some(limit.min(writes.len())) };
    Script { writes, fail_after }
}

fn check(c: &SCase, info: &mut CaseInfo) -> CheckResult {
    type Rt = RuntimeBuffers<<MemStorageProvider as StorageProvider>::Segment>;
    let all = c
        .init
        .iter()
        .chain(c.graph.iter().flatten())
        .chain(c.ops.iter().flat_map(|o| -> Box<dyn Iterator<Item = &FOp> + '_> {
            match o {
                SOp::Action(v) => Box::new(v.iter().flat_map(|s| s.writes.iter())),
                SOp::Receive(s) => Box::new(s.writes.iter()),
            }
        }));
    let uni = Universe::new(all);
    let mut client = ClientState::new(ScriptStore { policy: ScriptPolicy { counter: Cell::new(0) } }, MemStorageProvider::default());
    let mut rt = Rt::new();
    let mut step = 0usize;
    let mut m = Model::new();
    // ---- the committed graph
    let s0 = build(&CmdSpec { writes: c.init.clone(), fail: 0 }, &mut m, &mut step);
    let gid = client.new_graph(b"script", Act::Publish(std::slice::from_ref(&s0)), &mut NullSink).map_err(|e| serr("setup: new_graph failed", e))?;
    for g in &c.graph {
        let s = build(&CmdSpec { writes: g.clone(), fail: 0 }, &mut m, &mut step);
        client
            .action(gid, &mut NullSink, Act::Publish(std::slice::from_ref(&s)), &mut rt, MemSpill::new)
            .map_err(|e| serr("setup: action failed", e))?;
    }
    let mut session = client.session(gid).map_err(|e| serr("session() failed", e))?;
    let probe = |session: &mut aranya_runtime::Session<MemStorageProvider, ScriptStore>, client: &ClientState<ScriptStore, MemStorageProvider>, m: &Model, when: &str| -> CheckResult {
        let out = RefCell::new(Ok(()));
        let mut ms = MsgSink::default();
        let r = session.action(client, &mut NullSink, &mut ms, Act::Probe { model: m, uni: &uni, out: &out });
        ensure!(r.is_ok(), "probe action failed", "{when}: {r:?}");
        out.into_inner().map_err(|f| Failure::new(f.signature, format!("{when}: {}", f.detail)))
    };
    probe(&mut session, &client, &m, "new session")?;

    let mut failed_after_writes = 0;
    let mut failed_mid_action = 0;
    let mut ok_ops = 0;
    for (i, o) in c.ops.iter().enumerate() {
        match o {
            SOp::Action(specs) => {
                // the model: all or nothing
                let mut trial = m.clone();
                let mut scripts = Vec::new();
                let mut fails_at = None;
                for (j, sp) in specs.iter().enumerate() {
                    let s = build(sp, &mut trial, &mut step);
                    let fails = s.fail_after.is_some();
                    scripts.push(s);
                    if fails {
                        fails_at = Some(j);
                        break;
                    }
                }
                let wrote_before_fail = fails_at.is_some_and(|j| scripts[j].fail_after.is_some_and(|n| n > 0) || scripts[..j].iter().any(|x| !x.writes.is_empty()));
                let mut ms = MsgSink::default();
                let r = session.action(&client, &mut NullSink, &mut ms, Act::Publish(&scripts));
                match fails_at {
                    None => {
                        ensure!(r.is_ok(), "session action of succeeding rules failed", "op#{i}: {r:?}");
                        ensure!(ms.open.len() + ms.committed.len() == scripts.len(), "session action emitted a different number of commands", "op#{i}: {} vs {}", ms.open.len() + ms.committed.len(), scripts.len());
                        m = trial;
                        ok_ops += 1;
                    }
                    Some(j) => {
                        ensure!(r.is_err(), "session action with a failing rule succeeded", "op#{i}: command #{j} fails");
                        ensure!(ms.open.is_empty(), "failed session action left commands in the message sink", "op#{i}: {}", ms.open.len());
                        if wrote_before_fail {
                            failed_after_writes += 1;
                        }
                        if j > 0 {
                            failed_mid_action += 1;
                        }
                    }
                }
            }
            SOp::Receive(sp) => {
                let mut trial = m.clone();
                let s = build(sp, &mut trial, &mut step);
                let mut bytes = sw::cmd_id(70_000 + i as u64).as_bytes().to_vec();
                bytes.extend(postcard::to_allocvec(&s).expect("encode"));
                let r = session.receive(&client, &mut NullSink, &bytes);
                if s.fail_after.is_none() {
                    ensure!(r.is_ok(), "session receive of a succeeding rule failed", "op#{i}: {r:?}");
                    m = trial;
                    ok_ops += 1;
                } else {
                    ensure!(r.is_err(), "session receive of a failing rule succeeded", "op#{i}");
                    if s.fail_after.is_some_and(|n| n > 0) {
                        failed_after_writes += 1;
                    }
                }
            }
        }
        probe(&mut session, &client, &m, &format!("after op#{i}"))?;
    }
    // the graph itself is untouched by the session
    let mut fresh = client.session(gid).map_err(|e| serr("session() failed", e))?;
    let mut base = Model::new();
    let mut st = 0usize;
    let _ = build(&CmdSpec { writes: c.init.clone(), fail: 0 }, &mut base, &mut st);
    for g in &c.graph {
        let _ = build(&CmdSpec { writes: g.clone(), fail: 0 }, &mut base, &mut st);
    }
    probe(&mut fresh, &client, &base, "fresh session after the test session")?;

    if failed_after_writes >= 1 {
        info.nontrivial();
        info.label("rule wrote facts then failed");
    }
    if failed_mid_action >= 1 {
        info.label("action failed after earlier commands of the same action succeeded");
    }
    if ok_ops >= 1 && failed_after_writes >= 1 {
        info.label("successful and failed operations mixed");
    }
    Ok(())
}

fn cmd_spec() -> impl Strategy<Value = CmdSpec> {
    (prop::collection::vec(sw::fop(3, 4, 2, 4), 0..5), prop_oneof![2 => Just(0u8), 1 => 1u8..7]).prop_map(|(writes, fail)| CmdSpec { writes, fail })
}

fn scase() -> impl Strategy<Value = SCase> {
    (
        prop::collection::vec(sw::fop(3, 4, 2, 1), 0..5),
        prop::collection::vec(prop::collection::vec(sw::fop(3, 4, 2, 3), 0..4), 0..4),
        prop::collection::vec(
            prop_oneof![
                3 => prop::collection::vec(cmd_spec(), 1..4).prop_map(SOp::Action),
                2 => cmd_spec().prop_map(SOp::Receive),
            ],
            0..14,
        ),
    )
        .prop_map(|(init, graph, ops)| SCase { init, graph, ops })
}

pub fn add_parts(rep: &mut Report, ctx: &Ctx) {
    rep.assume("session facts are observed through the queries a policy action can make on the session perspective (exact and prefix queries of the whole key universe after every operation)");
    rep.explore(
        "session_failed_rules",
        "ephemeral Session over a committed graph (init + 0..3 on-graph actions, scripted policy defined in the harness): 0..13 operations of Session::action publishing 1..3 commands and Session::receive of one command, each command's rule doing 0..4 inserts/deletes (incl. of live facts) and optionally failing after k of them. Oracle: flat map that applies an operation's writes only if every rule in it succeeded; after every operation every exact/prefix query of the universe inside the session equals the model, a failed action leaves nothing in the message sink, and a fresh session still sees the committed state. non-trivial = some rule wrote facts and then failed",
        scase,
        ctx.pick(8_000, 100_000),
        check,
    );
}
