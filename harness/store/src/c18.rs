//! C18: sync message decoding / processing on hostile bytes.
//!
//! Valid messages are harvested from real sync sessions between two replicas running the
//! repository's `TestPolicy`; hostile inputs are arbitrary bytes, mutations of the harvested
//! messages, and messages crafted field by field with an independent postcard encoder (the wire
//! structs are crate-private; the layout is the documented one: postcard of the `SyncType` /
//! `SyncResponseMessage` enums followed by the raw command bytes).
use std::{cell::RefCell, collections::BTreeSet, time::Duration};

use aranya_crypto::Csprng;
use aranya_runtime::{
    Address, ClientState, CmdId, Command, CommandExt as _, GraphId, MAX_SYNC_MESSAGE_SIZE, MaxCut, MemSpill, PeerCache, Prior,
    Priority, RuntimeBuffers, SubscribeResponse, SyncHello, SyncIncoming, SyncRequester, SyncResponder,
    storage::{StorageProvider, linear::testing::MemStorageProvider},
    testing::protocol::{TestActions, TestPolicyStore, TestSink},
};
use proptest::prelude::*;
use serde::{Deserialize, Serialize, de::DeserializeOwned};
use vcommon::{CaseInfo, CheckResult, Ctx, Failure, Report, ensure, fail, idx};

type Client = ClientState<TestPolicyStore, MemStorageProvider>;
type Rt = RuntimeBuffers<<MemStorageProvider as StorageProvider>::Segment>;

/// Deterministic "CSPRNG" so harvested sessions have known session ids.
struct FixedRng(u128);
impl Csprng for FixedRng {
    fn fill_bytes(&self, dst: &mut [u8]) {
        let b = self.0.to_le_bytes();
        for (i, d) in dst.iter_mut().enumerate() {
            *d = b[i % 16];
        }
    }
}

const SID_X: u128 = 0x0123_4567_89ab_cdef_0011_2233_4455_6677;
const SID_Y: u128 = 0x0fed_cba9_8765_4321_7766_5544_3322_1100;

// ---------------------------------------------------------------------------------------------
// independent postcard helpers

fn enc<T: Serialize>(v: &T, out: &mut Vec<u8>) {
    out.extend(postcard::to_allocvec(v).expect("postcard encode of a plain value"));
}

fn take<T: DeserializeOwned>(b: &[u8]) -> Option<(T, &[u8])> {
    postcard::take_from_bytes::<T>(b).ok()
}

#[derive(Debug, Clone, Copy, PartialEq, Eq)]
struct RespHdr {
    /// 0 SyncResponse, 1 SyncEnd, 2 Offer, 3 EndSession
    kind: u32,
    session: u128,
    /// response_index / max_index
    index: Option<u64>,
}

fn parse_resp(b: &[u8]) -> Option<(RespHdr, &[u8])> {
    let (kind, b) = take::<u32>(b)?;
    if kind > 3 {
        return None;
    }
    let (session, b) = take::<u128>(b)?;
    let (index, b) = if kind <= 1 {
        let (i, b) = take::<u64>(b)?;
        (Some(i), b)
    } else {
        (None, b)
    };
    Some((RespHdr { kind, session, index }, b))
}

/// Session id of a `SyncType::Poll` message.
fn parse_poll_session(b: &[u8]) -> Option<u128> {
    let (t, b) = take::<u32>(b)?;
    if t != 0 {
        return None;
    }
    let (k, b) = take::<u32>(b)?;
    if k > 3 {
        return None;
    }
    take::<u128>(b).map(|x| x.0)
}

/// Header of the response carried by a `SyncType::Push` message.
fn parse_push(b: &[u8]) -> Option<RespHdr> {
    let (t, b) = take::<u32>(b)?;
    if t != 3 {
        return None;
    }
    parse_resp(b).map(|x| x.0)
}

#[derive(Clone, Debug, Serialize, Deserialize)]
struct MetaSpec {
    id: u8,
    /// 0 Merge, 1 Basic(p), 2 Finalize, 3 Init
    prio: u8,
    p: u32,
    /// 0 None, 1 Single, 2 Merge
    parent: u8,
    policy_len: u32,
    len: u32,
}

fn spec_id(i: u8) -> CmdId {
    let mut b = [0x77u8; 32];
    b[0] = i;
    CmdId::from_bytes(b)
}

impl MetaSpec {
    fn priority(&self) -> Priority {
        match self.prio {
            0 => Priority::Merge,
            1 => Priority::Basic(self.p),
            2 => Priority::Finalize,
            _ => Priority::Init,
        }
    }
    fn parent(&self) -> Prior<Address> {
        let a = |x: u8| Address { id: spec_id(x), max_cut: MaxCut::new(u64::from(self.p)) };
        match self.parent {
            0 => Prior::None,
            1 => Prior::Single(a(self.id.wrapping_add(1))),
            _ => Prior::Merge(a(self.id.wrapping_add(1)), a(self.id.wrapping_add(2))),
        }
    }
    fn encode(&self, out: &mut Vec<u8>) {
        enc(&spec_id(self.id), out);
        enc(&self.priority(), out);
        enc(&self.parent(), out);
        enc(&self.policy_len, out);
        enc(&self.len, out);
    }
}

fn enc_response(session: u128, index: u64, metas: &[MetaSpec], out: &mut Vec<u8>) {
    enc(&0u32, out);
    enc(&session, out);
    enc(&index, out);
    enc(&(metas.len() as u64), out);
    for m in metas {
        m.encode(out);
    }
}

// ---------------------------------------------------------------------------------------------
// the world: two replicas, harvested messages

#[derive(Clone)]
struct SessMsg {
    bytes: Vec<u8>,
    hdr: RespHdr,
    ncmds: usize,
}

struct World {
    b: Client,
    gid: GraphId,
    corpus: Vec<(&'static str, Vec<u8>)>,
    sess_x: Vec<SessMsg>,
    sess_y: Vec<SessMsg>,
    valid_poll: Vec<u8>,
    valid_poll_sid: u128,
    addrs: Vec<Address>,
    ids: BTreeSet<CmdId>,
    buf: Vec<u8>,
    rt: Rt,
}

fn new_client() -> Client {
    ClientState::new(TestPolicyStore::new(), MemStorageProvider::default())
}

fn new_sink() -> TestSink {
    let mut s = TestSink::new();
    s.ignore_expectations(true);
    s
}

/// One complete sync session `dest <- source`; every message on the wire is pushed to `harvest`.
fn full_session(source: &mut Client, dest: &mut Client, gid: GraphId, sid: u128, rt: &mut Rt, harvest: &mut Vec<(&'static str, Vec<u8>)>) -> usize {
    let mut sink = new_sink();
    let req_cache = PeerCache::new();
    let mut resp_cache = PeerCache::new();
    let mut requester = SyncRequester::new(gid, FixedRng(sid));
    let mut responder = SyncResponder::new();
    let mut buffer = vec![0u8; MAX_SYNC_MESSAGE_SIZE];
    let (len, _) = requester
        .poll(&mut buffer, dest.provider(), &req_cache.session_heads(), &mut rt.traversal.primary)
        .expect("world: requester poll");
    harvest.push(("poll:SyncRequest", buffer[..len].to_vec()));
    match SyncIncoming::decode(&buffer[..len]).expect("world: decode poll") {
        SyncIncoming::Poll(p) => responder.receive(p).expect("world: responder receive"),
        _ => panic!("world: expected a poll"),
    }
    let mut trx = dest.transaction(gid);
    let mut received = 0;
    let mut rounds = 0;
    while responder.ready() {
        rounds += 1;
        assert!(rounds < 64, "world: session did not end");
        let len = responder.poll(&mut buffer, source.provider(), &mut resp_cache, &mut rt.traversal).expect("world: responder poll");
        if len == 0 {
            break;
        }
        let msg = buffer[..len].to_vec();
        match requester.receive(&msg).expect("world: requester receive") {
            Some(cmds) => {
                harvest.push(("resp:SyncResponse", msg.clone()));
                received += dest.add_commands(&mut trx, &mut sink, &cmds, rt, MemSpill::new).expect("world: add_commands");
            }
            None => {
                harvest.push(("resp:SyncEnd", msg.clone()));
                break;
            }
        }
    }
    dest.commit(trx, &mut sink, rt, MemSpill::new).expect("world: commit");
    received
}

/// Everything `source` sends to a requester that holds nothing, without applying it.
fn harvest_session(source: &mut Client, gid: GraphId, sid: u128, rt: &mut Rt) -> (Vec<u8>, Vec<SessMsg>, Vec<Address>) {
    let mut empty = MemStorageProvider::default();
    let cache = PeerCache::new();
    let mut resp_cache = PeerCache::new();
    let mut requester = SyncRequester::new(gid, FixedRng(sid));
    let mut responder = SyncResponder::new();
    let mut buffer = vec![0u8; MAX_SYNC_MESSAGE_SIZE];
    let (len, _) = requester.poll(&mut buffer, &mut empty, &cache.session_heads(), &mut rt.traversal.primary).expect("world: poll");
    let poll = buffer[..len].to_vec();
    match SyncIncoming::decode(&poll).expect("world: decode poll") {
        SyncIncoming::Poll(p) => {
            assert_eq!(p.session_id(), sid, "world: FixedRng session id");
            responder.receive(p).expect("world: receive")
        }
        _ => panic!("world: expected a poll"),
    }
    let mut out = Vec::new();
    let mut addrs = Vec::new();
    while responder.ready() {
        assert!(out.len() < 64, "world: session did not end");
        let len = responder.poll(&mut buffer, source.provider(), &mut resp_cache, &mut rt.traversal).expect("world: responder poll");
        let msg = buffer[..len].to_vec();
        let (hdr, _) = parse_resp(&msg).expect("world: own header parser understands a real response");
        assert_eq!(hdr.session, sid, "world: own parser session id");
        match requester.receive(&msg).expect("world: receive") {
            Some(cmds) => {
                assert_eq!(hdr.kind, 0);
                for c in &cmds {
                    addrs.push(c.address().expect("address"));
                }
                let n = cmds.len();
                out.push(SessMsg { bytes: msg.clone(), hdr, ncmds: n });
            }
            None => {
                assert_eq!(hdr.kind, 1);
                out.push(SessMsg { bytes: msg.clone(), hdr, ncmds: 0 });
                break;
            }
        }
    }
    (poll, out, addrs)
}

/// Every command stored in the graph, by walking all segments back from the heads.
fn all_addresses(c: &mut Client, gid: GraphId) -> Vec<Address> {
    use aranya_runtime::storage::{Segment as _, Storage as _};
    let storage = c.provider().get_storage(gid).expect("world: get_storage");
    let mut todo: Vec<aranya_runtime::Location> = storage.get_heads().expect("world: heads").iter().map(|h| h.location()).collect();
    let mut seen = BTreeSet::new();
    let mut out = Vec::new();
    while let Some(l) = todo.pop() {
        let seg = storage.get_segment(l).expect("world: get_segment");
        if !seen.insert(seg.index().get()) {
            continue;
        }
        for cmd in seg.get_from(seg.first_location()) {
            out.push(cmd.address().expect("world: address"));
        }
        todo.extend(seg.prior());
    }
    out.sort();
    out.dedup();
    out
}

fn build_world() -> World {
    let mut sink = new_sink();
    let mut rt = Rt::new();
    let mut corpus: Vec<(&'static str, Vec<u8>)> = Vec::new();
    let mut a = new_client();
    let gid = a.new_graph(&0u64.to_be_bytes(), TestActions::Init(0), &mut sink).expect("world: new_graph");
    for i in 1..40u64 {
        a.action(gid, &mut sink, TestActions::SetValue(i, i), &mut rt, MemSpill::new).expect("world: action");
    }
    let mut b = new_client();
    full_session(&mut a, &mut b, gid, 0x1111, &mut rt, &mut corpus);
    for i in 40..125u64 {
        a.action(gid, &mut sink, TestActions::SetValue(i, i * 3), &mut rt, MemSpill::new).expect("world: action");
    }
    for i in 0..9u64 {
        let act = match i % 3 {
            0 => TestActions::SetValuePriority(1000 + i, i, 3),
            1 => TestActions::DeleteValue(i + 1, 2),
            _ => TestActions::NoOp(i, 1),
        };
        b.action(gid, &mut sink, act, &mut rt, MemSpill::new).expect("world: action b");
    }
    // a <- b: a now holds two branches; its next action collapses them with a merge command
    full_session(&mut b, &mut a, gid, 0x2222, &mut rt, &mut corpus);
    a.action(gid, &mut sink, TestActions::SetValue(7000, 1), &mut rt, MemSpill::new).expect("world: action after merge");
    a.action(gid, &mut sink, TestActions::SetValue(7001, 2), &mut rt, MemSpill::new).expect("world: action after merge");
    let mut sid = 0x3333u128;
    loop {
        let n = full_session(&mut a, &mut b, gid, sid, &mut rt, &mut corpus);
        sid += 1;
        assert!(sid < 0x3340, "world: replicas do not converge");
        if n == 0 {
            break;
        }
    }
    // b received its commands in a few large batches, so it holds few, long segments: a session
    // served by b needs several SyncResponse messages (COMMAND_RESPONSE_MAX = 100 per message).
    let addrs = all_addresses(&mut b, gid);
    let (poll_x, sess_x, got_x) = harvest_session(&mut b, gid, SID_X, &mut rt);
    let (_, sess_y, _) = harvest_session(&mut b, gid, SID_Y, &mut rt);
    assert!(sess_x.len() >= 3, "world: session X should need several responses, got {}", sess_x.len());
    assert!(got_x.iter().all(|x| addrs.contains(x)), "world: storage walk misses a command the responder sent");
    for m in sess_x.iter().chain(&sess_y) {
        corpus.push((if m.hdr.kind == 0 { "resp:SyncResponse" } else { "resp:SyncEnd" }, m.bytes.clone()));
    }
    corpus.push(("poll:SyncRequest", poll_x.clone()));

    let mut buf = vec![0u8; MAX_SYNC_MESSAGE_SIZE];
    // requester-side control polls: SyncResume (after a gap) and EndSession (resume impossible)
    {
        let mut r = SyncRequester::new_session_id(gid, SID_X);
        let _ = r.receive(&sess_x[0].bytes);
        let _ = r.receive(&sess_x[2].bytes);
        let cache = PeerCache::new();
        if let Ok((n, _)) = r.poll(&mut buf, b.provider(), &cache.session_heads(), &mut rt.traversal.primary) {
            corpus.push(("poll:SyncResume", buf[..n].to_vec()));
        }
        let mut r = SyncRequester::new_session_id(gid, SID_X);
        let _ = r.receive(&sess_x[1].bytes);
        let _ = r.poll(&mut buf, b.provider(), &cache.session_heads(), &mut rt.traversal.primary);
        if let Ok((n, _)) = r.poll(&mut buf, b.provider(), &cache.session_heads(), &mut rt.traversal.primary) {
            corpus.push(("poll:EndSession", buf[..n].to_vec()));
        }
        // subscribe / unsubscribe
        let mut r = SyncRequester::new(gid, FixedRng(0x4444));
        let n = r.subscribe(&mut buf, b.provider(), &cache.session_heads(), 60, 1 << 20, &mut rt.traversal.primary).expect("world: subscribe");
        corpus.push(("subscribe", buf[..n].to_vec()));
        let n = r.unsubscribe(&mut buf).expect("world: unsubscribe");
        corpus.push(("unsubscribe", buf[..n].to_vec()));
    }
    // responder-side: EndSession after an unsupported request, push
    {
        let mut m = Vec::new();
        enc(&0u32, &mut m); // SyncType::Poll
        enc(&1u32, &mut m); // RequestMissing
        enc(&0x5555u128, &mut m);
        enc(&2u64, &mut m);
        enc(&1u64, &mut m);
        enc(&3u64, &mut m);
        corpus.push(("poll:RequestMissing", m.clone()));
        let mut resp = SyncResponder::new();
        if let Ok(SyncIncoming::Poll(p)) = SyncIncoming::decode(&m) {
            let _ = resp.receive(p);
            let mut cache = PeerCache::new();
            if let Ok(n) = resp.poll(&mut buf, b.provider(), &mut cache, &mut rt.traversal) {
                corpus.push(("resp:EndSession", buf[..n].to_vec()));
            }
        }
        for (k, known) in [(5usize, 0x6666u128), (60, 0x6667), (120, 0x6668)] {
            let mut resp = SyncResponder::new();
            resp.start_session(known, gid, 1 << 20, [addrs[k.min(addrs.len() - 1)]]).expect("world: start_session");
            let n = resp.push(&mut buf, b.provider(), &mut rt.traversal).expect("world: push");
            if n > 0 {
                corpus.push(("push", buf[..n].to_vec()));
            }
        }
        let n = SubscribeResponse::Success.encode_to(&mut buf).expect("world: encode");
        corpus.push(("subscribe-response", buf[..n].to_vec()));
        let n = SubscribeResponse::TooManySubscriptions.encode_to(&mut buf).expect("world: encode");
        corpus.push(("subscribe-response", buf[..n].to_vec()));
    }
    // hand-encoded: Offer response, hello messages
    {
        let mut m = Vec::new();
        enc(&2u32, &mut m);
        enc(&SID_X, &mut m);
        enc(&addrs[3].id, &mut m);
        corpus.push(("resp:Offer", m));
        let head = b.hello_head(gid).expect("world: hello_head");
        let mut m = Vec::new();
        enc(&4u32, &mut m);
        enc(&2u32, &mut m);
        enc(&gid, &mut m);
        enc(&head, &mut m);
        match SyncIncoming::decode(&m) {
            Ok(SyncIncoming::Hello(SyncHello::Hello(h))) if h.graph_id() == gid && h.head() == head => {}
            _ => {
                println!("INCONCLUSIVE harness hello encoder does not match the wire format");
                std::process::exit(2);
            }
        }
        corpus.push(("hello:Hello", m));
        let mut m = Vec::new();
        enc(&4u32, &mut m);
        enc(&0u32, &mut m);
        enc(&gid, &mut m);
        enc(&Duration::new(1, 5), &mut m);
        enc(&Duration::new(3600, 0), &mut m);
        enc(&Duration::new(30, 999_999_999), &mut m);
        corpus.push(("hello:Subscribe", m));
        let mut m = Vec::new();
        enc(&4u32, &mut m);
        enc(&1u32, &mut m);
        enc(&gid, &mut m);
        corpus.push(("hello:Unsubscribe", m));
    }
    let ids = addrs.iter().map(|a| a.id).collect();
    drop(a);
    World { b, gid, corpus, sess_x, sess_y, valid_poll: poll_x, valid_poll_sid: SID_X, addrs, ids, buf, rt }
}

thread_local! {
    static WORLD: RefCell<Option<World>> = const { RefCell::new(None) };
}

fn with_world<R>(f: impl FnOnce(&mut World) -> R) -> R {
    WORLD.with(|w| {
        let mut w = w.borrow_mut();
        if w.is_none() {
            *w = Some(build_world());
        }
        f(w.as_mut().expect("world"))
    })
}

// ---------------------------------------------------------------------------------------------
// oracles

fn inside(buf: &[u8], s: &[u8]) -> bool {
    if s.is_empty() {
        return true;
    }
    let r = buf.as_ptr_range();
    let p = s.as_ptr() as usize;
    p >= r.start as usize && p + s.len() <= r.end as usize
}

/// What a requester did with one message, reduced to plain data inside the borrow of `bytes`.
enum Recv {
    /// accepted commands: count, all slices inside the buffer, ids
    Cmds(usize, bool, Vec<CmdId>),
    /// accepted a control message
    NoCmds,
    Err(String),
}

fn recv(req: &mut SyncRequester, bytes: &[u8]) -> Recv {
    match req.receive(bytes) {
        Ok(Some(cmds)) => {
            let ok = cmds.iter().all(|c| inside(bytes, c.bytes()) && c.policy().is_none_or(|p| inside(bytes, p)));
            Recv::Cmds(cmds.len(), ok, cmds.iter().map(|c| c.id()).collect())
        }
        Ok(None) => Recv::NoCmds,
        Err(e) => Recv::Err(format!("{e:?}")),
    }
}

/// Statement-level rules for one `receive` on a requester of session `sid` that has accepted
/// `accepted` responses so far. Returns true when commands were accepted.
fn judge(r: &Recv, bytes: &[u8], hdr: Option<RespHdr>, sid: u128, accepted: u64, who: &str) -> Result<bool, Failure> {
    match r {
        Recv::Cmds(n, inb, _) => {
            ensure!(*inb, "command slices point outside the received bytes", "{who}: {n} commands, message len {}", bytes.len());
            let Some(h) = hdr else {
                fail!("requester accepted commands from bytes that are not a sync response", "{who}: {}", vcommon::hex(&bytes[..bytes.len().min(64)]));
            };
            ensure!(h.kind == 0, "requester returned commands for a non-SyncResponse message", "{who}: {h:?}");
            ensure!(h.session == sid, "requester accepted commands for a different session", "{who}: message {h:?}, requester session {sid:#x}");
            ensure!(h.index == Some(accepted), "requester accepted commands out of sequence", "{who}: message {h:?}, {accepted} responses accepted before");
            Ok(true)
        }
        Recv::NoCmds => {
            if let Some(h) = hdr {
                ensure!(h.session == sid, "requester accepted a control message of a different session", "{who}: message {h:?}, requester session {sid:#x}");
            }
            Ok(false)
        }
        Recv::Err(_) => Ok(false),
    }
}

/// Every public entry point on one byte string.
fn feed_all(w: &mut World, bytes: &[u8], info: &mut CaseInfo) -> CheckResult {
    let World { b: a, gid, buf, rt, ids, valid_poll, valid_poll_sid, sess_x, .. } = w;
    let gid = *gid;
    // ---- SyncIncoming::decode and what a transport does with each variant
    match SyncIncoming::decode(bytes) {
        Err(_) => info.label("decode: error"),
        Ok(SyncIncoming::Poll(poll)) => {
            info.label("decode: Poll");
            let sid = poll.session_id();
            let own = parse_poll_session(bytes);
            ensure!(own == Some(sid), "decoded poll session id differs from the wire bytes", "{own:?} vs {sid:#x}");
            let mut resp = SyncResponder::new();
            let accepted = resp.receive(poll).is_ok();
            let mut cache = PeerCache::new();
            let mut req = SyncRequester::new_session_id(gid, sid);
            let mut n_ok = 0u64;
            let mut rounds = 0;
            while resp.ready() && rounds < 12 {
                rounds += 1;
                match resp.poll(buf, a.provider(), &mut cache, &mut rt.traversal) {
                    Ok(len) => {
                        ensure!(len <= buf.len(), "responder reported more bytes than the buffer holds", "{len}");
                        let out = &buf[..len];
                        let hdr = parse_resp(out).map(|x| x.0);
                        ensure!(hdr.is_some_and(|h| h.session == sid), "responder answered with another session id", "{hdr:?} vs {sid:#x}");
                        let r = recv(&mut req, out);
                        if let Recv::Cmds(_, _, got) = &r {
                            ensure!(got.iter().all(|i| ids.contains(i)), "responder sent a command that is not in its graph", "{got:?}");
                        }
                        if judge(&r, out, hdr, sid, n_ok, "responder output")? {
                            n_ok += 1;
                        }
                        if let Recv::Err(e) = r {
                            fail!("requester rejected a message the responder produced", "{e}");
                        }
                    }
                    Err(_) => break,
                }
            }
            if accepted && n_ok > 0 {
                info.label("poll served with commands");
            }
            // a responder already bound to a session must refuse another one
            let mut bound = SyncResponder::new();
            if let Ok(SyncIncoming::Poll(p)) = SyncIncoming::decode(valid_poll) {
                let r = bound.receive(p);
                ensure!(r.is_ok(), "harness: valid poll refused", "{r:?}");
            }
            if let Ok(SyncIncoming::Poll(p)) = SyncIncoming::decode(bytes) {
                let r = bound.receive(p);
                if sid != *valid_poll_sid {
                    ensure!(r.is_err(), "responder accepted a poll of a different session", "bound {:#x}, poll {sid:#x}: {r:?}", *valid_poll_sid);
                    info.label("bound responder refused other session");
                }
            }
        }
        Ok(SyncIncoming::Push(push)) => {
            info.label("decode: Push");
            let sid = push.session_id();
            let hdr = parse_push(bytes);
            ensure!(hdr.is_some_and(|h| h.session == sid), "decoded push session id differs from the wire bytes", "{hdr:?} vs {sid:#x}");
            let _ = push.graph_id();
            let mut req = SyncRequester::new_session_id(gid, sid);
            let r = match req.receive_push(push) {
                Ok(Some(cmds)) => {
                    let ok = cmds.iter().all(|c| inside(bytes, c.bytes()) && c.policy().is_none_or(|p| inside(bytes, p)));
                    Recv::Cmds(cmds.len(), ok, Vec::new())
                }
                Ok(None) => Recv::NoCmds,
                Err(e) => Recv::Err(format!("{e:?}")),
            };
            if judge(&r, bytes, hdr, sid, 0, "push to matching requester")? {
                info.label("push accepted");
            }
            if let Ok(SyncIncoming::Push(push)) = SyncIncoming::decode(bytes) {
                let other = sid ^ 0x55;
                let mut req = SyncRequester::new_session_id(gid, other);
                let r = req.receive_push(push).map(|o| o.map(|c| c.len()));
                ensure!(r.is_err(), "requester accepted a push of a different session", "{r:?}");
            }
        }
        Ok(SyncIncoming::Subscribe(s)) => {
            info.label("decode: Subscribe");
            let _ = (s.remain_open(), s.max_bytes());
            let heads: Vec<Address> = s.heads().iter().collect();
            ensure!(heads.len() == s.heads().as_slice().len() && heads.len() <= 100, "subscribe head sample larger than documented", "{}", heads.len());
            let mut cache = PeerCache::new();
            let _ = a.update_heads(s.graph_id(), heads.iter().copied(), &mut cache, &mut rt.traversal.primary);
            let mut resp = SyncResponder::new();
            if resp.start_session(1, s.graph_id(), s.max_bytes(), heads.iter().copied()).is_ok() {
                if let Ok(n) = resp.push(buf, a.provider(), &mut rt.traversal) {
                    ensure!(n <= buf.len(), "push reported more bytes than the buffer holds", "{n}");
                    if n > 0 {
                        info.label("subscribe answered with a push");
                        ensure!(matches!(SyncIncoming::decode(&buf[..n]), Ok(SyncIncoming::Push(_))), "push output does not decode as a push", "{n} bytes");
                    }
                }
            }
        }
        Ok(SyncIncoming::Unsubscribe(u)) => {
            info.label("decode: Unsubscribe");
            let _ = u.graph_id();
        }
        Ok(SyncIncoming::Hello(h)) => {
            info.label("decode: Hello");
            match h {
                SyncHello::Subscribe(s) => {
                    let _ = (s.graph_id(), s.graph_change_delay(), s.duration(), s.schedule_delay());
                }
                SyncHello::Unsubscribe(u) => {
                    let _ = u.graph_id();
                }
                SyncHello::Hello(n) => {
                    let _ = a.should_sync_on_hello(n.graph_id(), n.head(), &mut rt.traversal.primary);
                }
            }
        }
    }

    // ---- SyncRequester::receive: matching session, other session
    let hdr = parse_resp(bytes).map(|x| x.0);
    let sid = hdr.map_or(SID_X, |h| h.session);
    let mut req = SyncRequester::new_session_id(gid, sid);
    let r = recv(&mut req, bytes);
    if judge(&r, bytes, hdr, sid, 0, "requester(matching session)")? {
        info.label("receive: commands accepted");
    } else if matches!(r, Recv::NoCmds) {
        info.label("receive: control message accepted");
    }
    // the same message again is a replay: nothing may be accepted twice
    let r2 = recv(&mut req, bytes);
    if let Recv::Cmds(..) = r {
        ensure!(!matches!(r2, Recv::Cmds(..)), "requester accepted the same response twice", "{hdr:?}");
    }
    let other = sid ^ 0x0100;
    let mut req = SyncRequester::new_session_id(gid, other);
    match recv(&mut req, bytes) {
        Recv::Err(_) => {}
        Recv::Cmds(n, ..) => fail!("requester accepted commands for a different session", "{n} commands; message {hdr:?}, requester {other:#x}"),
        Recv::NoCmds => fail!("requester accepted a control message of a different session", "message {hdr:?}, requester {other:#x}"),
    }

    // ---- requesters of session X in other protocol states: one response accepted (Waiting),
    // whole session received (PartialSync), after a gap (Resync), closed by EndSession
    for state in 0..4u8 {
        let mut req = SyncRequester::new_session_id(gid, SID_X);
        let mut accepted = 0u64;
        let feed: &[usize] = match state {
            0 => &[0],
            1 => &[],
            2 => &[0, 2],
            _ => &[],
        };
        if state == 1 {
            for m in sess_x.iter() {
                if matches!(recv(&mut req, &m.bytes), Recv::Cmds(..)) {
                    accepted += 1;
                }
            }
        } else if state == 3 {
            let mut e = Vec::new();
            enc(&3u32, &mut e);
            enc(&SID_X, &mut e);
            let _ = recv(&mut req, &e);
        } else {
            for i in feed {
                if matches!(recv(&mut req, &sess_x[(*i).min(sess_x.len() - 1)].bytes), Recv::Cmds(..)) {
                    accepted += 1;
                }
            }
        }
        let r = recv(&mut req, bytes);
        if judge(&r, bytes, hdr, SID_X, accepted, "requester(session X, later state)")? {
            info.label("receive in a later state: commands accepted");
        }
    }

    // ---- SubscribeResponse::decode
    if SubscribeResponse::decode(bytes).is_ok() {
        info.label("subscribe-response decoded");
    }
    info.nontrivial();
    Ok(())
}

// ---------------------------------------------------------------------------------------------
// generators

fn raw_bytes() -> impl Strategy<Value = Vec<u8>> {
    prop_oneof![
        2 => prop::collection::vec(any::<u8>(), 0..48),
        // a plausible tag prefix followed by noise
        3 => (0u8..6, 0u8..5, prop::collection::vec(any::<u8>(), 0..80)).prop_map(|(t, k, mut v)| {
            let mut o = vec![t, k];
            o.append(&mut v);
            o
        }),
        // small varint-heavy strings
        2 => prop::collection::vec(prop_oneof![Just(0u8), Just(1), Just(0x20), Just(0x7f), Just(0x80), Just(0xff), 0u8..8], 0..40),
    ]
}

#[derive(Clone, Debug, Serialize, Deserialize)]
enum Mut {
    Truncate(u16),
    FlipBit(u16, u8),
    SetByte(u16, u8),
    Insert(u16, Vec<u8>),
    Delete(u16, u8),
    /// Replace the tail from `at` with the tail of another corpus message from `from`.
    Splice { other: u16, at: u16, from: u16 },
    /// Set the continuation bit of a byte (lengthens a varint).
    Continue(u16),
    /// Replace one byte with a maximal 5-byte varint (u32::MAX) / 10-byte varint (u64::MAX).
    MaxVarint(u16, bool),
    /// Add or subtract a small amount from a byte (length / index / count fields).
    Bump(u16, i8),
    Append(Vec<u8>),
}

#[derive(Clone, Debug, Serialize, Deserialize)]
struct MutCase {
    base: u16,
    /// positions are taken in the first `window` bytes (headers and metas live there) or anywhere
    head_only: bool,
    muts: Vec<Mut>,
}

fn mutation() -> impl Strategy<Value = Mut> {
    prop_oneof![
        3 => any::<u16>().prop_map(Mut::Truncate),
        3 => (any::<u16>(), 0u8..8).prop_map(|(p, b)| Mut::FlipBit(p, b)),
        3 => (any::<u16>(), any::<u8>()).prop_map(|(p, b)| Mut::SetByte(p, b)),
        1 => (any::<u16>(), prop::collection::vec(any::<u8>(), 1..6)).prop_map(|(p, b)| Mut::Insert(p, b)),
        2 => (any::<u16>(), 1u8..40).prop_map(|(p, n)| Mut::Delete(p, n)),
        2 => (any::<u16>(), any::<u16>(), any::<u16>()).prop_map(|(other, at, from)| Mut::Splice { other, at, from }),
        2 => any::<u16>().prop_map(Mut::Continue),
        2 => (any::<u16>(), any::<bool>()).prop_map(|(p, w)| Mut::MaxVarint(p, w)),
        3 => (any::<u16>(), -3i8..4).prop_map(|(p, d)| Mut::Bump(p, d)),
        1 => prop::collection::vec(any::<u8>(), 1..20).prop_map(Mut::Append),
    ]
}

fn apply_muts(corpus: &[(&'static str, Vec<u8>)], c: &MutCase) -> (usize, Vec<u8>) {
    let bi = idx(c.base, corpus.len());
    let mut v = corpus[bi].1.clone();
    for m in &c.muts {
        let window = if c.head_only { v.len().min(96) } else { v.len() };
        let pos = |p: u16| idx(p, window);
        match m {
            Mut::Truncate(p) => {
                let n = pos(*p);
                v.truncate(n);
            }
            Mut::FlipBit(p, b) => {
                if !v.is_empty() {
                    let i = pos(*p);
                    v[i] ^= 1 << (b & 7);
                }
            }
            Mut::SetByte(p, b) => {
                if !v.is_empty() {
                    let i = pos(*p);
                    v[i] = *b;
                }
            }
            Mut::Insert(p, b) => {
                let i = pos(*p);
                v.splice(i..i, b.iter().copied());
            }
            Mut::Delete(p, n) => {
                if !v.is_empty() {
                    let i = pos(*p);
                    let e = (i + *n as usize).min(v.len());
                    v.drain(i..e);
                }
            }
            Mut::Splice { other, at, from } => {
                let o = &corpus[idx(*other, corpus.len())].1;
                let i = pos(*at);
                let f = idx(*from, o.len().min(if c.head_only { 96 } else { usize::MAX }));
                v.truncate(i);
                v.extend_from_slice(&o[f..]);
            }
            Mut::Continue(p) => {
                if !v.is_empty() {
                    let i = pos(*p);
                    v[i] |= 0x80;
                }
            }
            Mut::MaxVarint(p, wide) => {
                if !v.is_empty() {
                    let i = pos(*p);
                    let rep: &[u8] = if *wide { &[0xff, 0xff, 0xff, 0xff, 0xff, 0xff, 0xff, 0xff, 0xff, 0x01] } else { &[0xff, 0xff, 0xff, 0xff, 0x0f] };
                    v.splice(i..i + 1, rep.iter().copied());
                }
            }
            Mut::Bump(p, d) => {
                if !v.is_empty() {
                    let i = pos(*p);
                    v[i] = v[i].wrapping_add(*d as u8);
                }
            }
            Mut::Append(b) => v.extend_from_slice(b),
        }
    }
    (bi, v)
}

#[derive(Clone, Debug, Serialize, Deserialize)]
struct Crafted {
    /// requester session: 0 => same as the message's, else xor mask
    sess_xor: u8,
    index: u8,
    metas: Vec<MetaSpec>,
    /// bytes that follow the header: exact total, or exact plus/minus a delta
    data_delta: i16,
    /// wrap into SyncType::Push
    push: bool,
    /// how many responses the requester accepted before (it is fed valid empty responses first)
    warm: u8,
}

fn meta_spec() -> impl Strategy<Value = MetaSpec> {
    (
        any::<u8>(),
        0u8..4,
        prop_oneof![Just(0u32), Just(1), any::<u32>()],
        0u8..3,
        prop_oneof![6 => Just(0u32), 3 => 1u32..40, 1 => Just(u32::MAX), 1 => any::<u32>()],
        prop_oneof![2 => Just(0u32), 6 => 1u32..60, 1 => Just(u32::MAX), 1 => any::<u32>()],
    )
        .prop_map(|(id, prio, p, parent, policy_len, len)| MetaSpec { id, prio, p, parent, policy_len, len })
}

fn crafted() -> impl Strategy<Value = Crafted> {
    (
        prop_oneof![3 => Just(0u8), 1 => 1u8..=255],
        prop_oneof![3 => Just(0u8), 1 => 0u8..4],
        prop_oneof![8 => prop::collection::vec(meta_spec(), 0..6), 1 => prop::collection::vec(meta_spec(), 95..104)],
        prop_oneof![3 => Just(0i16), 2 => -40i16..40, 1 => Just(i16::MIN)],
        any::<bool>(),
        prop_oneof![3 => Just(0u8), 1 => 0u8..4],
    )
        .prop_map(|(sess_xor, index, metas, data_delta, push, warm)| Crafted { sess_xor, index, metas, data_delta, push, warm })
}

/// A crafted SyncResponse has exactly one correct reading (the sender's layout in
/// `SyncResponder::get_commands`: per command the policy bytes, if any, then the payload, back
/// to back after the header). The requester must return exactly that or an error.
fn check_crafted(c: &Crafted, info: &mut CaseInfo) -> CheckResult {
    let msg_sid: u128 = SID_X ^ 0xabcd;
    let req_sid = msg_sid ^ u128::from(c.sess_xor);
    let warm = if c.push { 0 } else { u64::from(c.warm) };
    let mut bytes = Vec::new();
    if c.push {
        enc(&3u32, &mut bytes);
    }
    enc_response(msg_sid, u64::from(c.index), &c.metas, &mut bytes);
    if c.push {
        enc(&spec_id(9), &mut bytes); // graph id has the same encoding as any id
    }
    let hdr_len = bytes.len();
    // expected slicing
    let mut total: u64 = 0;
    for m in &c.metas {
        total += u64::from(m.policy_len) + u64::from(m.len);
    }
    let data_len: u64 = if c.data_delta == i16::MIN { 0 } else { (total as i64 + i64::from(c.data_delta)).max(0) as u64 };
    let data_len = data_len.min(1 << 16) as usize;
    for i in 0..data_len {
        bytes.push((i as u8).wrapping_mul(31).wrapping_add(7));
    }
    let data = bytes[hdr_len..].to_vec();
    let mut want: Option<Vec<(Option<Vec<u8>>, Vec<u8>)>> = Some(Vec::new());
    let mut off = 0usize;
    for m in &c.metas {
        let pl = m.policy_len as usize;
        let l = m.len as usize;
        let Some(w) = want.as_mut() else { break };
        if off.checked_add(pl).and_then(|x| x.checked_add(l)).is_none_or(|e| e > data.len()) {
            want = None;
            break;
        }
        let pol = if pl == 0 { None } else { Some(data[off..off + pl].to_vec()) };
        off += pl;
        w.push((pol, data[off..off + l].to_vec()));
        off += l;
    }
    let too_many = c.metas.len() > 100;
    let must_accept = c.sess_xor == 0 && u64::from(c.index) == warm && !too_many && want.is_some();
    let must_reject = c.sess_xor != 0 || u64::from(c.index) != warm || too_many || want.is_none();

    let gid = GraphId::default();
    let mut req = SyncRequester::new_session_id(gid, req_sid);
    for i in 0..warm {
        let mut e = Vec::new();
        enc_response(req_sid, i, &[], &mut e);
        let r = req.receive(&e).map(|o| o.map(|c| c.len()));
        ensure!(matches!(r, Ok(Some(0))), "valid empty in-sequence response refused", "warm-up #{i}: {r:?}");
    }
    let res = if c.push {
        match SyncIncoming::decode(&bytes) {
            Ok(SyncIncoming::Push(p)) => {
                ensure!(p.session_id() == msg_sid, "decoded push session id differs from the wire bytes", "{:#x}", p.session_id());
                req.receive_push(p)
            }
            Ok(_) => fail!("crafted push decoded as another message kind", "{} metas", c.metas.len()),
            Err(e) => {
                ensure!(too_many, "well-formed push failed to decode", "{e:?}");
                info.label("rejected: too many commands");
                return Ok(());
            }
        }
    } else {
        req.receive(&bytes)
    };
    match res {
        Ok(Some(cmds)) => {
            ensure!(!must_reject, "requester accepted a response it must reject", "sess_xor={} index={} warm={warm} metas={} fits={}", c.sess_xor, c.index, c.metas.len(), want.is_some());
            let want = want.expect("fits");
            ensure!(cmds.len() == want.len(), "number of returned commands differs from the message", "{} vs {}", cmds.len(), want.len());
            for (i, (cmd, (pol, pay))) in cmds.iter().zip(&want).enumerate() {
                ensure!(inside(&bytes, cmd.bytes()) && cmd.policy().is_none_or(|p| inside(&bytes, p)), "command slices point outside the received bytes", "command #{i}");
                ensure!(cmd.bytes() == pay.as_slice(), "command payload differs from the bytes the message designates", "command #{i}");
                ensure!(cmd.policy() == pol.as_deref(), "command policy differs from the bytes the message designates", "command #{i}");
                let m = &c.metas[i];
                ensure!(cmd.id() == spec_id(m.id) && cmd.priority() == m.priority() && cmd.parent() == m.parent(), "command metadata differs from the message", "command #{i}");
            }
            info.label(if cmds.is_empty() { "accepted: empty response" } else { "accepted: commands match the designated bytes" });
            if !cmds.is_empty() {
                info.nontrivial();
            }
        }
        Ok(None) => fail!("SyncResponse treated as a control message", "{} metas", c.metas.len()),
        Err(e) => {
            ensure!(!must_accept, "requester rejected a well-formed in-sequence response of its session", "{e:?}; metas={}", c.metas.len());
            info.nontrivial();
            info.label(if c.sess_xor != 0 {
                "rejected: other session"
            } else if u64::from(c.index) != warm {
                "rejected: out of sequence"
            } else if too_many {
                "rejected: too many commands"
            } else {
                "rejected: lengths exceed the received bytes"
            });
        }
    }
    Ok(())
}

/// One message offered to the requester of session X.
#[derive(Clone, Debug, Serialize, Deserialize)]
enum OrderMsg {
    /// message `i` of the real session X (own) or Y (foreign), as the responder sent it
    Real { foreign: bool, i: u8 },
    /// the response / SyncEnd whose index is (responses accepted so far) + delta: the real message of
    /// session X with that index when `real` and there is one, otherwise a crafted well-formed response
    Relative { delta: i8, real: bool },
    /// crafted well-formed SyncResponse (session X or X^xor) with `ncmds` 3-byte commands
    Response { sess_xor: u8, index: u8, ncmds: u8, push: bool },
    /// crafted SyncEnd
    End { sess_xor: u8, max_index: u8 },
    EndSession { sess_xor: u8 },
    Offer { sess_xor: u8 },
}

#[derive(Clone, Debug, Serialize, Deserialize)]
enum OrderOp {
    Receive(OrderMsg),
    /// `SyncRequester::poll` with the full-size buffer, or one too small for any message
    Poll { small: bool },
}

#[derive(Clone, Debug, Serialize, Deserialize)]
struct OrderCase {
    /// true: requester created by a real `poll` (state Start); false: `new_session_id` (Waiting)
    via_poll: bool,
    /// this many messages of session X are delivered in order first
    prefix: u8,
    ops: Vec<OrderOp>,
}

fn order_case() -> impl Strategy<Value = OrderCase> {
    let xor = || prop_oneof![4 => Just(0u8), 1 => 1u8..=255];
    let msg = prop_oneof![
        3 => Just(OrderMsg::Relative { delta: 0, real: true }),
        5 => (-2i8..5, any::<bool>()).prop_map(|(delta, real)| OrderMsg::Relative { delta, real }),
        3 => (prop::bool::weighted(0.3), 0u8..5).prop_map(|(foreign, i)| OrderMsg::Real { foreign, i }),
        2 => (xor(), 0u8..6, 0u8..4, prop::bool::weighted(0.25)).prop_map(|(sess_xor, index, ncmds, push)| OrderMsg::Response { sess_xor, index, ncmds, push }),
        1 => (xor(), 0u8..6).prop_map(|(sess_xor, max_index)| OrderMsg::End { sess_xor, max_index }),
        1 => prop_oneof![xor().prop_map(|sess_xor| OrderMsg::EndSession { sess_xor }), xor().prop_map(|sess_xor| OrderMsg::Offer { sess_xor })],
    ];
    let op = prop_oneof![
        5 => msg.prop_map(OrderOp::Receive),
        3 => prop::bool::weighted(0.1).prop_map(|small| OrderOp::Poll { small }),
    ];
    (any::<bool>(), 0u8..4, prop::collection::vec(op, 1..14)).prop_map(|(via_poll, prefix, ops)| OrderCase { via_poll, prefix, ops })
}

/// Request kind (0 SyncRequest, 1 RequestMissing, 2 SyncResume, 3 EndSession), session id and, for a
/// SyncResume, the response index it names, of a `SyncType::Poll` message (independent parse).
fn parse_poll_out(b: &[u8]) -> Option<(u32, u128, Option<u64>)> {
    let (t, b) = take::<u32>(b)?;
    if t != 0 {
        return None;
    }
    let (k, b) = take::<u32>(b)?;
    if k > 3 {
        return None;
    }
    let (s, b) = take::<u128>(b)?;
    let ri = if k == 2 { Some(take::<u64>(b)?.0) } else { None };
    Some((k, s, ri))
}

fn crafted_response(session: u128, index: u64, ncmds: u8, push: bool) -> Vec<u8> {
    let metas: Vec<MetaSpec> = (0..ncmds).map(|k| MetaSpec { id: k.wrapping_add(index as u8).wrapping_mul(3), prio: 1, p: 1, parent: 1, policy_len: 0, len: 3 }).collect();
    let mut m = Vec::new();
    if push {
        enc(&3u32, &mut m);
    }
    enc_response(session, index, &metas, &mut m);
    if push {
        enc(&spec_id(9), &mut m);
    }
    for k in 0..ncmds {
        m.extend_from_slice(&[k, 0xc1, 0xd2]);
    }
    m
}

/// One requester of session X driven through a generated sequence of receive / poll calls (valid
/// messages of two real sessions, crafted well-formed messages with chosen session and index, in any
/// order, with the resync round trip in between).
///
/// Model (from the property statement and the documented protocol): `accepted` = number of responses
/// of this session accepted so far. Commands may only come from a SyncResponse of session X whose
/// index equals `accepted`; a rejected message never advances it, whatever happens in between; a
/// SyncResume names the last response received (`accepted - 1`) and cannot be sent before any
/// response was received; once the session ended (SyncEnd / EndSession accepted, EndSession sent)
/// nothing more is accepted.
fn check_order(w: &mut World, c: &OrderCase, info: &mut CaseInfo) -> CheckResult {
    let World { gid, buf, rt, sess_x, sess_y, .. } = w;
    let gid = *gid;
    let mut empty = MemStorageProvider::default();
    let cache = PeerCache::new();
    let mut req = if c.via_poll {
        let mut r = SyncRequester::new(gid, FixedRng(SID_X));
        let p = r.poll(buf, &mut empty, &cache.session_heads(), &mut rt.traversal.primary);
        ensure!(p.is_ok(), "harness: poll failed", "{p:?}");
        let out = parse_poll_out(&buf[..p.as_ref().map_or(0, |x| x.0)]);
        ensure!(matches!(out, Some((0, SID_X, None))), "first poll of a new requester is not a SyncRequest of its session", "{out:?}");
        r
    } else {
        SyncRequester::new_session_id(gid, SID_X)
    };
    let mut accepted = 0u64;
    // the session ended: SyncEnd / EndSession accepted, or EndSession emitted by the requester
    let mut over: Option<&'static str> = None;
    // the requester is known to wait for response `accepted`: fresh, after an accepted response, or
    // after it emitted a SyncResume; unknown (false) after anything else
    let mut live = true;
    let mut gaps = false;
    let mut foreign_seen = false;
    let mut rejected_own = false;
    let mut resumed = false;
    let ops: Vec<OrderOp> = (0..c.prefix).map(|_| OrderOp::Receive(OrderMsg::Relative { delta: 0, real: true })).chain(c.ops.iter().cloned()).collect();
    for (k, op) in ops.iter().enumerate() {
        let m = match op {
            OrderOp::Poll { small } => {
                let target: &mut [u8] = if *small { &mut buf[..3] } else { &mut buf[..] };
                let cap = target.len();
                match req.poll(target, &mut empty, &cache.session_heads(), &mut rt.traversal.primary) {
                    Ok((n, _)) => {
                        ensure!(n <= cap, "requester reported more bytes than the buffer holds", "step {k}: {n} > {cap}");
                        let out = &buf[..n];
                        let Some((kind, sid, ri)) = parse_poll_out(out) else {
                            fail!("requester poll output is not a poll message", "step {k}: {}", vcommon::hex(&out[..out.len().min(48)]));
                        };
                        ensure!(sid == SID_X, "requester emitted a message for a different session", "step {k}: kind {kind}, session {sid:#x}");
                        ensure!(
                            matches!(SyncIncoming::decode(out), Ok(SyncIncoming::Poll(p)) if p.session_id() == SID_X),
                            "requester poll output does not decode as a poll of its session",
                            "step {k}: kind {kind}"
                        );
                        match kind {
                            2 => {
                                ensure!(
                                    accepted >= 1 && ri == Some(accepted - 1),
                                    "SyncResume names a response that is not the last one received",
                                    "step {k}: resume after response {ri:?}, but {accepted} responses were accepted so far (the last one received is {:?})",
                                    accepted.checked_sub(1)
                                );
                                ensure!(over.is_none(), "requester resumed a session that ended", "step {k}: {over:?}");
                                info.label("poll: SyncResume emitted");
                                resumed = true;
                                live = true;
                            }
                            3 => {
                                info.label("poll: EndSession emitted");
                                over = Some("EndSession sent by the requester");
                                live = false;
                            }
                            _ => {
                                info.label("poll: other request emitted");
                                live = false;
                            }
                        }
                    }
                    Err(_) => {
                        info.label("poll: error");
                        live = false;
                    }
                }
                continue;
            }
            OrderOp::Receive(m) => m,
        };
        // ---- the message
        let real: Option<&SessMsg>;
        let crafted: Vec<u8>;
        let mut want_cmds: Option<usize> = None;
        let mut is_push = false;
        match m {
            OrderMsg::Real { foreign, i } => {
                let list: &Vec<SessMsg> = if *foreign { sess_y } else { sess_x };
                real = Some(&list[(*i as usize).min(list.len() - 1)]);
                crafted = Vec::new();
            }
            OrderMsg::Relative { delta, real: r } => {
                let target = accepted.saturating_add_signed(i64::from(*delta));
                let found = if *r { sess_x.iter().find(|x| x.hdr.index == Some(target)) } else { None };
                real = found;
                crafted = if found.is_none() {
                    want_cmds = Some(2);
                    crafted_response(SID_X, target, 2, false)
                } else {
                    Vec::new()
                };
            }
            OrderMsg::Response { sess_xor, index, ncmds, push } => {
                real = None;
                want_cmds = Some(*ncmds as usize);
                is_push = *push;
                crafted = crafted_response(SID_X ^ u128::from(*sess_xor), u64::from(*index), *ncmds, *push);
            }
            OrderMsg::End { sess_xor, max_index } => {
                real = None;
                let mut e = Vec::new();
                enc(&1u32, &mut e);
                enc(&(SID_X ^ u128::from(*sess_xor)), &mut e);
                enc(&u64::from(*max_index), &mut e);
                enc(&false, &mut e);
                crafted = e;
            }
            OrderMsg::EndSession { sess_xor } => {
                real = None;
                let mut e = Vec::new();
                enc(&3u32, &mut e);
                enc(&(SID_X ^ u128::from(*sess_xor)), &mut e);
                crafted = e;
            }
            OrderMsg::Offer { sess_xor } => {
                real = None;
                let mut e = Vec::new();
                enc(&2u32, &mut e);
                enc(&(SID_X ^ u128::from(*sess_xor)), &mut e);
                enc(&spec_id(4), &mut e);
                crafted = e;
            }
        }
        let bytes: &[u8] = real.map_or(crafted.as_slice(), |x| x.bytes.as_slice());
        if let Some(x) = real {
            if x.hdr.kind == 0 {
                want_cmds = Some(x.ncmds);
            }
        }
        let hdr = if is_push { parse_push(bytes) } else { parse_resp(bytes).map(|x| x.0) };
        let Some(hdr) = hdr else {
            fail!("harness: own parser does not understand a message it built", "step {k}: {m:?}");
        };
        let r = if is_push {
            match SyncIncoming::decode(bytes) {
                Ok(SyncIncoming::Push(p)) => match req.receive_push(p) {
                    Ok(Some(cmds)) => {
                        let ok = cmds.iter().all(|c| inside(bytes, c.bytes()) && c.policy().is_none_or(|p| inside(bytes, p)));
                        Recv::Cmds(cmds.len(), ok, cmds.iter().map(|c| c.id()).collect())
                    }
                    Ok(None) => Recv::NoCmds,
                    Err(e) => Recv::Err(format!("{e:?}")),
                },
                other => fail!("well-formed push failed to decode", "step {k}: {:?}", other.map(|_| ())),
            }
        } else {
            recv(&mut req, bytes)
        };
        // ---- safety
        let foreign = hdr.session != SID_X;
        if foreign {
            foreign_seen = true;
            ensure!(matches!(r, Recv::Err(_)), "requester accepted a message of a different session", "step {k}: {hdr:?}");
        }
        if let (Some(why), Recv::Cmds(n, ..)) = (over, &r) {
            fail!("requester accepted commands after the session ended", "step {k}: {n} commands from {hdr:?}; {why}");
        }
        let took = judge(&r, bytes, Some(hdr), SID_X, accepted, "op sequence")?;
        if took {
            if let (Recv::Cmds(n, ..), Some(wn)) = (&r, want_cmds) {
                ensure!(*n == wn, "requester returned a different number of commands than the message carries", "step {k}: {n} vs {wn}");
            }
            if resumed {
                info.label("response accepted after a resume");
            }
        }
        // ---- nothing lost: a requester known to wait for response `accepted` takes exactly that one
        let in_order = !foreign && hdr.kind <= 1 && hdr.index == Some(accepted);
        if live && over.is_none() && in_order {
            match (&r, hdr.kind) {
                (Recv::Cmds(..), 0) | (Recv::NoCmds, 1) => {}
                (Recv::Err(e), _) => fail!("requester refused a valid in-order message of its own session", "step {k}: {hdr:?} with {accepted} accepted: {e}"),
                _ => fail!("requester misread a valid in-order message", "step {k}: {hdr:?}"),
            }
        }
        // ---- model update
        match &r {
            Recv::Cmds(..) => {
                accepted += 1;
                live = true;
            }
            Recv::NoCmds => {
                match hdr.kind {
                    1 => over = Some("SyncEnd accepted"),
                    3 => over = Some("EndSession accepted"),
                    _ => {}
                }
                live = false;
            }
            Recv::Err(_) => {
                if !foreign {
                    if hdr.kind <= 1 && !in_order {
                        gaps = true;
                    }
                    rejected_own = true;
                    live = false;
                }
            }
        }
    }
    if foreign_seen || gaps {
        info.nontrivial();
    }
    if foreign_seen {
        info.label("foreign-session message interleaved");
    }
    if gaps {
        info.label("gap / replay / reordering");
    }
    if rejected_own && resumed {
        info.label("rejection followed by a resume round trip");
    }
    if accepted >= 2 {
        info.label("accepted>=2 responses");
    }
    if over.is_some() {
        info.label("session ended inside the sequence");
    }
    Ok(())
}

#[derive(Clone, Debug, Serialize, Deserialize)]
struct PollCase {
    /// 0 SyncRequest, 1 RequestMissing, 2 SyncResume, 3 EndSession
    kind: u8,
    session: u8,
    real_graph: bool,
    max_bytes: u64,
    /// (selector, 0 = real address, 1 = real id with shifted max cut, 2 = unknown id)
    sample: Vec<(u16, u8, i8)>,
    /// second poll on the same responder: session offset (0 = same session)
    second_session: u8,
}

fn poll_case() -> impl Strategy<Value = PollCase> {
    (
        prop_oneof![8 => Just(0u8), 1 => 1u8..4],
        any::<u8>(),
        prop::bool::weighted(0.9),
        prop_oneof![Just(0u64), Just(1 << 20), any::<u64>()],
        prop_oneof![
            6 => prop::collection::vec((any::<u16>(), prop_oneof![4 => Just(0u8), 1 => Just(1u8), 1 => Just(2u8)], -2i8..3), 0..12),
            1 => prop::collection::vec((any::<u16>(), 0u8..3, -2i8..3), 98..103),
        ],
        prop_oneof![1 => Just(0u8), 2 => 1u8..=255],
    )
        .prop_map(|(kind, session, real_graph, max_bytes, sample, second_session)| PollCase { kind, session, real_graph, max_bytes, sample, second_session })
}

fn encode_poll(w: &World, c: &PollCase, session: u128) -> (Vec<u8>, Vec<Address>) {
    let mut m = Vec::new();
    let mut sample = Vec::new();
    enc(&0u32, &mut m);
    enc(&u32::from(c.kind.min(3)), &mut m);
    enc(&session, &mut m);
    match c.kind.min(3) {
        0 => {
            let gid = if c.real_graph { w.gid } else { GraphId::from_bytes([0x42; 32]) };
            enc(&gid, &mut m);
            enc(&c.max_bytes, &mut m);
            enc(&(c.sample.len() as u64), &mut m);
            for (sel, how, d) in &c.sample {
                let real = w.addrs[idx(*sel, w.addrs.len())];
                let a = match how {
                    0 => real,
                    1 => Address { id: real.id, max_cut: MaxCut::new(real.max_cut.get().saturating_add_signed(i64::from(*d) * 3 + 1)) },
                    _ => Address { id: spec_id((*sel & 0xff) as u8), max_cut: MaxCut::new(u64::from(*sel)) },
                };
                sample.push(a);
                enc(&a, &mut m);
            }
        }
        1 => {
            enc(&2u64, &mut m);
            enc(&0u64, &mut m);
            enc(&c.max_bytes, &mut m);
        }
        2 => {
            enc(&1u64, &mut m);
            enc(&c.max_bytes, &mut m);
        }
        _ => {}
    }
    (m, sample)
}

/// Crafted polls against a responder serving the real graph.
fn check_poll(w: &mut World, c: &PollCase, info: &mut CaseInfo) -> CheckResult {
    let sid = SID_Y ^ u128::from(c.session);
    let (bytes, _sample) = encode_poll(w, c, sid);
    let kind = c.kind.min(3);
    let too_many = kind == 0 && c.sample.len() > 100;
    let poll = match SyncIncoming::decode(&bytes) {
        Ok(SyncIncoming::Poll(p)) => p,
        Ok(_) => fail!("crafted poll decoded as another message kind", "kind {kind}"),
        Err(e) => {
            ensure!(too_many, "well-formed poll failed to decode", "{e:?}");
            info.label("poll with >100 sample addresses rejected");
            return Ok(());
        }
    };
    ensure!(!too_many, "poll with more than COMMAND_SAMPLE_MAX addresses decoded", "{}", c.sample.len());
    ensure!(poll.session_id() == sid, "decoded poll session id differs from the wire bytes", "{:#x}", poll.session_id());
    let World { b: a, gid, buf, rt, ids, .. } = w;
    let mut resp = SyncResponder::new();
    let r = resp.receive(poll);
    match kind {
        0 | 3 => ensure!(r.is_ok(), "responder refused a well-formed first poll", "{r:?}"),
        _ => ensure!(r.is_err(), "responder accepted a request kind it documents as unsupported", "{r:?}"),
    }
    let mut cache = PeerCache::new();
    let mut req = SyncRequester::new_session_id(*gid, sid);
    let mut n_ok = 0u64;
    let mut sent: BTreeSet<CmdId> = BTreeSet::new();
    let mut ended = false;
    let mut rounds = 0;
    while resp.ready() && rounds < 40 {
        rounds += 1;
        match resp.poll(buf, a.provider(), &mut cache, &mut rt.traversal) {
            Ok(len) => {
                ensure!(len <= buf.len(), "responder reported more bytes than the buffer holds", "{len}");
                let out = &buf[..len];
                let hdr = parse_resp(out).map(|x| x.0);
                ensure!(hdr.is_some_and(|h| h.session == sid), "responder answered with another session id", "{hdr:?} vs {sid:#x}");
                let r = recv(&mut req, out);
                if let Recv::Cmds(_, _, got) = &r {
                    ensure!(got.iter().all(|i| ids.contains(i)), "responder sent a command that is not in its graph", "{got:?}");
                    sent.extend(got.iter().copied());
                }
                if judge(&r, out, hdr, sid, n_ok, "responder output")? {
                    n_ok += 1;
                }
                match r {
                    Recv::Err(e) => fail!("requester rejected a message the responder produced", "{e}"),
                    Recv::NoCmds => ended = true,
                    Recv::Cmds(..) => {}
                }
            }
            Err(_) => break,
        }
    }
    if kind == 0 && c.real_graph && ended {
        if !sent.is_empty() {
            info.label("session delivered commands");
            info.nontrivial();
        }
        if n_ok >= 2 {
            info.label("multi-response session");
        }
    }
    if !c.real_graph {
        info.label("unknown graph id");
    }
    // a second poll on the same responder
    let sid2 = sid ^ u128::from(c.second_session);
    let (bytes2, _) = encode_poll(w, &PollCase { kind: 0, sample: Vec::new(), ..c.clone() }, sid2);
    if let Ok(SyncIncoming::Poll(p)) = SyncIncoming::decode(&bytes2) {
        let r = resp.receive(p);
        if sid2 != sid {
            ensure!(r.is_err(), "responder accepted a poll of a different session", "bound {sid:#x}, poll {sid2:#x}: {r:?}");
            info.label("bound responder refused other session");
            info.nontrivial();
        } else {
            ensure!(r.is_ok(), "responder refused a new request of its own session", "{r:?}");
        }
    }
    Ok(())
}

pub fn run(ctx: &Ctx) -> ! {
    let mut rep = Report::new(ctx, "exploration");
    rep.assume("postcard (the serde format crate) decodes primitives as documented; the harness's own header parser and message encoder are built on its primitive encodings only");
    rep.assume("each worker thread builds the same two-replica world (TestPolicy, in-memory storage, fixed session ids); cases only read it");
    // build once on the main thread: the world is a handful of complete, valid sync sessions
    // between two replicas; if those fail the code under test mishandles valid messages
    let _ = rep.replay_for("valid_sessions");
    let built = vcommon::catch(|| {
        with_world(|w| {
            let mut k: Vec<&str> = w.corpus.iter().map(|c| c.0).collect();
            k.sort_unstable();
            k.dedup();
            (w.corpus.len(), k.join(","), w.sess_x.len(), w.addrs.len())
        })
    });
    let (ncorpus, kinds) = match built {
        Ok((n, k, nx, na)) => {
            rep.add_part(vcommon::PartResult {
                name: "valid_sessions".into(),
                rule: format!("fixed scenario: replicas A and B (TestPolicy, {na} commands incl. a merge) sync both ways until converged, then B serves two full sessions ({nx} messages each) to an empty requester; every poll/receive/add_commands/commit must succeed; {n} messages harvested [{k}]"),
                evaluations: 1,
                distinct_nontrivial: 1,
                exhaustive: false,
                ..Default::default()
            });
            (n, k)
        }
        Err((msg, loc)) => {
            let fl = Failure::new("valid sync sessions between two replicas failed", format!("panic `{msg}` at {loc}"));
            rep.add_part(vcommon::PartResult {
                name: "valid_sessions".into(),
                rule: "fixed scenario of valid sync sessions".into(),
                evaluations: 1,
                violation: Some((fl, serde_json::Value::Null)),
                ..Default::default()
            });
            rep.finish()
        }
    };
    let entry = "entry points per input: SyncIncoming::decode (+ per variant what a transport does: SyncResponder::receive+poll to the end with the real graph and a requester reading the output, a second responder already bound to another session, SyncRequester::receive_push for a matching and a foreign session, update_heads/start_session/push for Subscribe, should_sync_on_hello for Hello, all getters), SyncRequester::receive for the matching session (twice: replay), for a foreign session, and for session-X requesters in four later protocol states, SubscribeResponse::decode. Oracle: no panic; every returned SyncCommand slice lies inside the input buffer; commands are only accepted if the harness's own header parse says SyncResponse of the requester's session with the next index; foreign session => Err";
    rep.explore(
        "raw_bytes",
        &format!("arbitrary byte strings (0..82 bytes: uniform, tag-prefixed noise, varint-heavy alphabets). {entry}. every input counts as non-trivial (the property quantifies over all byte strings)"),
        raw_bytes,
        ctx.pick(60_000, 3_000_000),
        |b: &Vec<u8>, info: &mut CaseInfo| with_world(|w| feed_all(w, b, info)),
    );
    rep.explore(
        "mutated_corpus",
        &format!("1..4 mutations (truncate, bit flip, set byte, insert, delete, splice with another message, set continuation bit, max varint, +-delta on a byte, append) of {ncorpus} harvested/hand-encoded valid messages [{kinds}], positions biased to the first 96 bytes half of the time. {entry}"),
        || {
            (any::<u16>(), any::<bool>(), prop::collection::vec(mutation(), 0..5)).prop_map(|(base, head_only, muts)| MutCase { base, head_only, muts })
        },
        ctx.pick(60_000, 3_000_000),
        |c: &MutCase, info: &mut CaseInfo| {
            with_world(|w| {
                let (bi, bytes) = apply_muts(&w.corpus, c);
                if c.muts.is_empty() {
                    info.label(format!("unmutated {}", w.corpus[bi].0));
                }
                feed_all(w, &bytes, info)
            })
        },
    );
    rep.explore(
        "crafted_response",
        "SyncResponse / Push messages encoded field by field (session, index, 0..5 or 95..103 command metas with arbitrary policy_length/length incl. u32::MAX, trailing data exact / short / long / absent) to a requester of the same or another session that accepted 0..3 responses before. Oracle: exact - accepted iff same session, next index, <=100 metas and all lengths fit, and then every command's policy/payload/id/priority/parent equals what the message designates and lies inside the buffer; otherwise Err. non-trivial = commands returned or a rejection",
        crafted,
        ctx.pick(40_000, 2_000_000),
        check_crafted,
    );
    rep.explore(
        "session_order",
        "one requester of session X (created by poll() or new_session_id()), 0..3 in-order messages first, then 1..13 generated ops: Receive (a valid message of the real sessions X or Y (same graph, responses 0..n and SyncEnd) by position; the real or a crafted well-formed response with index = accepted+delta, delta -2..4; crafted SyncResponse via receive or receive_push / SyncEnd / EndSession / Offer with chosen session and index) or Poll (full-size buffer, 10% a 3-byte one). Model: accepted = responses accepted so far. Oracle: foreign session => Err; commands only from a SyncResponse of session X with index == accepted (a rejected message never advances it, polls in between or not) and with the number of commands the message carries; nothing accepted after SyncEnd/EndSession was accepted or EndSession was sent; every poll output is a poll message of session X; a SyncResume names accepted-1 and needs accepted >= 1; a requester known to wait (fresh, after an accepted response, after emitting SyncResume) accepts the in-order message. non-trivial = a foreign, replayed, skipped or reordered message in the sequence",
        order_case,
        ctx.pick(20_000, 500_000),
        |c: &OrderCase, info: &mut CaseInfo| with_world(|w| check_order(w, c, info)),
    );
    rep.explore(
        "crafted_poll",
        "polls encoded field by field (all four request kinds; real/unknown graph id; sample of 0..11 or 98..102 addresses that are real, real id with wrong max cut, or unknown) to a fresh SyncResponder over a 140-command graph with a merge, polled to the end; then a second poll with the same or another session id. Oracle: no panic; unsupported kinds => Err; >100 addresses => decode error; every output carries the poll's session id, is accepted in sequence by a requester, contains only commands of the graph; other session => Err. non-trivial = session delivered commands or a foreign-session poll was refused",
        poll_case,
        ctx.pick(6_000, 150_000),
        |c: &PollCase, info: &mut CaseInfo| with_world(|w| check_poll(w, c, info)),
    );
    rep.finish()
}
