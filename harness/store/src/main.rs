mod c12;
mod c13;
mod c13s;
mod c18;
mod sw;

fn main() {
    let ctx = vcommon::Ctx::from_args();
    // a violation in the storage parts is shrunk with up to 4000 re-runs of a storage scenario
    ctx.watchdog(ctx.pick(1800, 3 * 3600));
    match ctx.prop.as_str() {
        "C12" => c12::run(&ctx),
        "C13" => c13::run(&ctx),
        "C18" => c18::run(&ctx),
        p => {
            println!("INCONCLUSIVE vh-store does not serve {p}");
            std::process::exit(2);
        }
    }
}
