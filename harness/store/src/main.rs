mod c12;
mod c13;
mod c18;
mod sw;

fn main() {
    let ctx = vcommon::Ctx::from_args();
    ctx.watchdog(ctx.pick(900, 7200));
    match ctx.prop.as_str() {
        "C12" => c12::run(&ctx),
        "C13" => c13::run(&ctx),
        "C18" => c18::run(&ctx),
        p => {
            println!("INCONCLUSIVE vh-store does not serve {p}");
            std::process::exit(2);
        }
    }
}
