//! Shared pieces for C12/C13: key universe, flat-map model, query oracle, test command.
use std::collections::{BTreeMap, BTreeSet};

use aranya_runtime::{
    Address, CmdId, Command, Prior, Priority,
    storage::{Bytes, Keys, Query, QueryMut},
};
use proptest::prelude::*;
use serde::{Deserialize, Serialize};
use vcommon::{CheckResult, Failure, idx};

/// Fact names: one is a strict prefix of another; `UNUSED_NAME` is never written.
pub const NAMES: [&str; 3] = ["f", "fg", "g"];
pub const UNUSED_NAME: &str = "h";
/// Key components: empty, prefix-related, extremes.
pub const COMPS: [&[u8]; 5] = [b"", b"a", b"ab", b"b", b"\xff"];
/// A component never used in any written key.
pub const ALIEN: &[u8] = b"zz";

pub type MKey = (String, Vec<Vec<u8>>);
/// The specification: a flat map from (name, compound key) to value.
pub type Model = BTreeMap<MKey, Vec<u8>>;

pub fn name_of(n: u8) -> String {
    NAMES[(n as usize).min(NAMES.len() - 1)].to_string()
}

pub fn key_of(k: &[u8]) -> Vec<Vec<u8>> {
    k.iter().map(|c| COMPS[(*c as usize).min(COMPS.len() - 1)].to_vec()).collect()
}

pub fn to_keys(k: &[Vec<u8>]) -> Keys {
    k.iter().map(|c| Bytes::from(c.as_slice())).collect()
}

pub fn to_bytes_vec(k: &[Vec<u8>]) -> Vec<Bytes> {
    k.iter().map(|c| Bytes::from(c.as_slice())).collect()
}

/// One fact write. `*X` variants address a key currently live in the model (overwrite / delete of
/// an existing fact); they are skipped when the model is empty.
#[derive(Clone, Debug, Serialize, Deserialize)]
pub enum FOp {
    Ins { n: u8, k: Vec<u8>, v: u8 },
    InsX { sel: u16, v: u8 },
    Del { n: u8, k: Vec<u8> },
    DelX { sel: u16 },
}

pub fn value_of(v: u8, step: usize) -> Vec<u8> {
    if v == 0 { Vec::new() } else { vec![v, (step & 0xff) as u8, ((step >> 8) & 0xff) as u8] }
}

impl FOp {
    /// Resolves the op against the current model: `(key, Some(value))` = insert, `(key, None)` = delete.
    pub fn resolve(&self, m: &Model, step: usize) -> Option<(MKey, Option<Vec<u8>>)> {
        match self {
            FOp::Ins { n, k, v } => Some(((name_of(*n), key_of(k)), Some(value_of(*v, step)))),
            FOp::Del { n, k } => Some(((name_of(*n), key_of(k)), None)),
            FOp::InsX { sel, v } => {
                let key = m.keys().nth(idx(*sel, m.len()))?.clone();
                Some((key, Some(value_of(*v, step))))
            }
            FOp::DelX { sel } => {
                let key = m.keys().nth(idx(*sel, m.len()))?.clone();
                Some((key, None))
            }
        }
    }
    pub fn fresh_key(&self) -> Option<Vec<Vec<u8>>> {
        match self {
            FOp::Ins { k, .. } | FOp::Del { k, .. } => Some(key_of(k)),
            _ => None,
        }
    }
}

pub fn key_strategy(ncomp: u8, maxlen: usize) -> impl Strategy<Value = Vec<u8>> {
    prop::collection::vec(0..ncomp, 0..=maxlen)
}

/// `existing_bias`: weight of the ops that hit live keys relative to fresh ones.
pub fn fop(nnames: u8, ncomp: u8, maxlen: usize, existing_bias: u32) -> impl Strategy<Value = FOp> {
    prop_oneof![
        6 => (0..nnames, key_strategy(ncomp, maxlen), any::<u8>()).prop_map(|(n, k, v)| FOp::Ins { n, k, v }),
        2 => (0..nnames, key_strategy(ncomp, maxlen)).prop_map(|(n, k)| FOp::Del { n, k }),
        existing_bias => (any::<u16>(), any::<u8>()).prop_map(|(sel, v)| FOp::InsX { sel, v }),
        existing_bias + 1 => any::<u16>().prop_map(|sel| FOp::DelX { sel }),
    ]
}

/// What is queried: every fresh key of the case under every name (plus an unused name, the empty
/// key and an alien key), and as prefixes: every prefix of every such key, every key extended by
/// an empty component, the empty prefix and a non-matching prefix.
pub struct Universe {
    pub names: Vec<String>,
    pub keys: Vec<Vec<Vec<u8>>>,
    pub prefixes: Vec<Vec<Vec<u8>>>,
}

impl Universe {
    pub fn new<'a>(ops: impl Iterator<Item = &'a FOp>) -> Self {
        let mut keys: BTreeSet<Vec<Vec<u8>>> = BTreeSet::new();
        let mut used: BTreeSet<String> = BTreeSet::new();
        keys.insert(Vec::new());
        keys.insert(vec![ALIEN.to_vec()]);
        for o in ops {
            if let Some(k) = o.fresh_key() {
                keys.insert(k);
            }
            if let FOp::Ins { n, .. } | FOp::Del { n, .. } = o {
                used.insert(name_of(*n));
            }
        }
        let mut prefixes: BTreeSet<Vec<Vec<u8>>> = BTreeSet::new();
        for k in &keys {
            for l in 0..=k.len() {
                prefixes.insert(k[..l].to_vec());
            }
            let mut ext = k.clone();
            ext.push(Vec::new());
            prefixes.insert(ext);
        }
        // every name the case can touch (live-key ops only hit names some fresh op named) plus
        // one name nothing is ever written under
        if used.len() < 2 {
            used.insert(NAMES[0].to_string());
            used.insert(NAMES[1].to_string());
        }
        let mut names: Vec<String> = used.into_iter().collect();
        names.push(UNUSED_NAME.to_string());
        Universe { names, keys: keys.into_iter().collect(), prefixes: prefixes.into_iter().collect() }
    }
}

fn show(k: &[Vec<u8>]) -> String {
    let parts: Vec<String> = k.iter().map(|c| vcommon::hex(c)).collect();
    format!("[{}]", parts.join(","))
}

fn model_prefix<'m>(m: &'m Model, name: &str, prefix: &[Vec<u8>]) -> Vec<(&'m Vec<Vec<u8>>, &'m Vec<u8>)> {
    // BTreeMap iteration order = ascending (name, key) = ascending key within one name
    m.iter().filter(|((n, k), _)| n == name && k.starts_with(prefix)).map(|((_, k), v)| (k, v)).collect()
}

pub fn check_exact<Q: Query>(q: &Q, m: &Model, name: &str, key: &[Vec<u8>], what: &str) -> CheckResult {
    let got = match q.query(name, &to_bytes_vec(key)) {
        Ok(g) => g.map(|b| b.to_vec()),
        Err(e) => return Err(Failure::new(format!("{what}: query returned an error"), format!("query({name:?},{}) -> {e:?}", show(key)))),
    };
    let want = m.get(&(name.to_string(), key.to_vec())).cloned();
    if got != want {
        return Err(Failure::new(
            format!("{what}: exact query differs from the flat map"),
            format!("query({name:?},{}) got {:?} want {:?}", show(key), got.map(|v| vcommon::hex(&v)), want.map(|v| vcommon::hex(&v))),
        ));
    }
    Ok(())
}

pub fn check_prefix<Q: Query>(q: &Q, m: &Model, name: &str, prefix: &[Vec<u8>], what: &str) -> CheckResult {
    let it = match q.query_prefix(name, &to_bytes_vec(prefix)) {
        Ok(it) => it,
        Err(e) => return Err(Failure::new(format!("{what}: query_prefix returned an error"), format!("query_prefix({name:?},{}) -> {e:?}", show(prefix)))),
    };
    let mut got: Vec<(Vec<Vec<u8>>, Vec<u8>)> = Vec::new();
    for r in it {
        match r {
            Ok(f) => got.push((f.key.iter().map(|b| b.to_vec()).collect(), f.value.to_vec())),
            Err(e) => return Err(Failure::new(format!("{what}: query_prefix item is an error"), format!("query_prefix({name:?},{}) item {e:?}", show(prefix)))),
        }
    }
    for w in got.windows(2) {
        if w[0].0 >= w[1].0 {
            return Err(Failure::new(
                format!("{what}: prefix results not in strictly ascending key order"),
                format!("query_prefix({name:?},{}) {} then {}", show(prefix), show(&w[0].0), show(&w[1].0)),
            ));
        }
    }
    let want = model_prefix(m, name, prefix);
    let same = got.len() == want.len() && got.iter().zip(&want).all(|(g, w)| &g.0 == w.0 && &g.1 == w.1);
    if !same {
        let g: Vec<String> = got.iter().map(|(k, v)| format!("{}={}", show(k), vcommon::hex(v))).collect();
        let w: Vec<String> = want.iter().map(|(k, v)| format!("{}={}", show(k), vcommon::hex(v))).collect();
        return Err(Failure::new(
            format!("{what}: prefix query differs from the flat map"),
            format!("query_prefix({name:?},{}) got {g:?} want {w:?}", show(prefix)),
        ));
    }
    Ok(())
}

/// Full comparison of a queryable against the model over the whole universe.
pub fn check_all<Q: Query>(q: &Q, m: &Model, u: &Universe, what: &str) -> CheckResult {
    for name in &u.names {
        for k in &u.keys {
            check_exact(q, m, name, k, what)?;
        }
        for p in &u.prefixes {
            check_prefix(q, m, name, p, what)?;
        }
    }
    // every key the model holds must be found; by construction they are all in the universe
    for ((n, k), _) in m {
        if !(u.names.contains(n) && u.keys.contains(k)) {
            check_exact(q, m, n, k, what)?;
        }
    }
    Ok(())
}

/// Cheap comparison around one key: exact query plus every prefix of the key.
pub fn check_near<Q: Query>(q: &Q, m: &Model, key: &MKey, what: &str) -> CheckResult {
    check_exact(q, m, &key.0, &key.1, what)?;
    for l in 0..=key.1.len() {
        check_prefix(q, m, &key.0, &key.1[..l], what)?;
    }
    Ok(())
}

/// Applies a resolved write to both the implementation and the model.
pub fn apply<Q: QueryMut>(q: &mut Q, m: &mut Model, key: &MKey, val: &Option<Vec<u8>>) -> CheckResult {
    match val {
        Some(v) => {
            if let Err(e) = q.insert(key.0.clone(), to_keys(&key.1), Bytes::from(v.as_slice())) {
                return Err(Failure::new("insert returned an error", format!("{e:?}")));
            }
            m.insert(key.clone(), v.clone());
        }
        None => {
            if let Err(e) = q.delete(key.0.clone(), to_keys(&key.1)) {
                return Err(Failure::new("delete returned an error", format!("{e:?}")));
            }
            m.remove(key);
        }
    }
    Ok(())
}

/// A minimal command.
pub struct Cmd {
    pub id: CmdId,
    pub parent: Prior<Address>,
    pub prio: Priority,
    pub policy: Option<Vec<u8>>,
    pub data: Vec<u8>,
}

impl Command for Cmd {
    fn priority(&self) -> Priority {
        self.prio.clone()
    }
    fn id(&self) -> CmdId {
        self.id
    }
    fn parent(&self) -> Prior<Address> {
        self.parent
    }
    fn policy(&self) -> Option<&[u8]> {
        self.policy.as_deref()
    }
    fn bytes(&self) -> &[u8] {
        &self.data
    }
}

pub fn cmd_id(counter: u64) -> CmdId {
    let mut b = [0u8; 32];
    b[..8].copy_from_slice(&counter.to_le_bytes());
    b[8] = 0xC1;
    b[31] = 0x5A;
    CmdId::from_bytes(b)
}

/// Max cut of a command with the given parent (definition from `CommandExt::max_cut` docs: maximum
/// distance to the init command).
pub fn next_max_cut(parent: &Prior<Address>) -> u64 {
    match parent {
        Prior::None => 0,
        Prior::Single(a) => a.max_cut.get() + 1,
        Prior::Merge(a, b) => a.max_cut.get().max(b.max_cut.get()) + 1,
    }
}
