//! C07: actions are atomic (real VmPolicy on the real runtime, MemStorageProvider; one part runs
//! the same scenarios on a fault-injecting wrapper of the in-memory linear storage back end).
use std::{
    borrow::Cow,
    collections::BTreeMap,
    sync::{Arc, Mutex},
};

use aranya_crypto::DeviceId;
use aranya_policy_vm::{FactValue, Machine, Struct, Value, ffi::FfiModule as _, ident};
use aranya_runtime::{
    Address, ClientError, ClientState, CmdId, FfiCallable, GraphId, HeadSet, Location, MaxCut, MemSpill, Prior, Priority,
    RuntimeBuffers, SegmentIndex, Storage as _, StorageError, StorageProvider, VmAction, VmPolicy,
    storage::{
        HeadSetOffset,
        linear::{
            FactCacheOffset, IoManager, LinearStorageProvider, Read, Write,
            testing::{Manager, MemStorageProvider, Reader, Writer},
        },
    },
    vm_policy::testing::TestFfiEnvelope,
};
use proptest::prelude::*;
use serde::{Deserialize, Serialize};
use vcommon::{CaseInfo, CheckResult, Ctx, Failure, Report, ensure, fail};

use crate::rt::{self, Buffers, Client, Eng, RecSink, Store};

pub const POLICY: &str = r#"
use envelope

fact Slot[k int]=>{v int}

effect Did { tag int, kind int, k int, v int }
effect Recalled { tag int }

struct Spec { kind int, k int, v int, mode int, tag int }

command Init {
    attributes { init: true }
    fields { nonce int }
    seal { return envelope::do_seal(payload) }
    open { return envelope::do_open(payload, envelope) }
    policy { finish {} }
}

action init(nonce int) {
    publish Init { nonce: nonce }
}

command Op {
    attributes { priority: 1 }
    fields { kind int, k int, v int, mode int, tag int }
    seal { return envelope::do_seal(payload) }
    open { return envelope::do_open(payload, envelope) }
    policy {
        check this.mode != 1 else recall rejected()
        check this.mode != 2 else todo()
        let present = exists Slot[k: this.k]=>{v: ?}
        match this.kind {
            0 => {
                check !present else recall rejected()
                finish {
                    create Slot[k: this.k]=>{v: this.v}
                    emit Did { tag: this.tag, kind: this.kind, k: this.k, v: this.v }
                }
            }
            1 => {
                check present else recall rejected()
                finish {
                    update Slot[k: this.k]=>{v: ?} to {v: this.v}
                    emit Did { tag: this.tag, kind: this.kind, k: this.k, v: this.v }
                }
            }
            2 => {
                check present else recall rejected()
                finish {
                    delete Slot[k: this.k]
                    emit Did { tag: this.tag, kind: this.kind, k: this.k, v: this.v }
                }
            }
            _ => {
                check !present else recall rejected()
                finish {
                    create Slot[k: this.k]=>{v: this.v}
                    emit Did { tag: this.tag, kind: this.kind, k: this.k, v: this.v }
                    update Slot[k: this.v]=>{v: ?} to {v: 7}
                }
            }
        }
    }
    recall rejected() {
        finish { emit Recalled { tag: this.tag } }
    }
}

function mk(s struct Spec) struct Op {
    return Op { kind: s.kind, k: s.k, v: s.v, mode: s.mode, tag: s.tag }
}

action a1(a struct Spec) {
    publish mk(a)
}

action a2(a struct Spec, b struct Spec) {
    publish mk(a)
    publish mk(b)
}

action a3(a struct Spec, b struct Spec, c struct Spec) {
    publish mk(a)
    publish mk(b)
    publish mk(c)
}

action a4(a struct Spec, b struct Spec, c struct Spec, d struct Spec) {
    publish mk(a)
    publish mk(b)
    publish mk(c)
    publish mk(d)
}

action nest(a struct Spec, b struct Spec, c struct Spec, d struct Spec) {
    publish mk(a)
    action a2(b, c)
    publish mk(d)
}

action inner(b struct Spec, c struct Spec) {
    action a1(b)
    publish mk(c)
}

action deep(a struct Spec, b struct Spec, c struct Spec) {
    action a1(a)
    action inner(b, c)
}

action fall(a struct Spec, b struct Spec, c struct Spec, stop int) result[unit, string] {
    check stop != 0 else return Err("stop0")
    publish mk(a)
    check stop != 1 else return Err("stop1")
    publish mk(b)
    check stop != 2 else return Err("stop2")
    publish mk(c)
    check stop != 3 else return Err("stop3")
    return Ok(Unit)
}

action cond(a struct Spec, b struct Spec) {
    publish mk(a)
    if exists Slot[k: a.k]=>{v: ?} {
        publish mk(b)
    }
}

action maybe(a struct Spec, go bool) {
    if go {
        publish mk(a)
    }
}

action chk(a struct Spec, b struct Spec, stop int) {
    check stop != 0 else todo()
    publish mk(a)
    check stop != 1 else todo()
    publish mk(b)
    check stop != 2 else todo()
}
"#;

pub const FACT_NAMES: &[&str] = &["Slot"];

#[derive(Clone, Debug, Serialize, Deserialize, PartialEq, Eq)]
pub struct Spec {
    pub kind: u8,
    pub k: u8,
    pub v: i8,
    pub mode: u8,
    /// choose create vs update/delete by whether the slot exists when the command is published
    /// (keeps most commands valid so that long chains and divergent branches exist)
    pub auto: bool,
}

#[derive(Clone, Debug, Serialize, Deserialize)]
pub struct Act {
    pub which: u8,
    pub specs: Vec<Spec>, // always 4
    pub stop: u8,
    pub go: bool,
}

#[derive(Clone, Debug, Serialize, Deserialize)]
pub struct Case {
    /// actions by client 0 before the other clients fork off
    pub prefix: Vec<Act>,
    /// one action list per additional client (each forks after `prefix`)
    pub branches: Vec<Vec<Act>>,
    /// client 0's own actions after the fork, before it receives the branches
    pub own: Vec<Act>,
    /// deliver all branches in one transaction (true) or one transaction per branch
    pub one_trx: bool,
    /// actions under test on client 0 after the branches arrived
    pub tests: Vec<Act>,
}

pub const N_ACTIONS: u8 = 10;

fn spec(ok_bias: bool) -> impl Strategy<Value = Spec> {
    let mode = if ok_bias {
        prop_oneof![12 => Just(0u8), 1 => Just(1u8), 1 => Just(2u8)].boxed()
    } else {
        prop_oneof![6 => Just(0u8), 1 => Just(1u8), 1 => Just(2u8)].boxed()
    };
    (prop_oneof![4 => Just(0u8), 3 => Just(1u8), 2 => Just(2u8), 1 => Just(3u8)], 0u8..6, -2i8..7, mode, prop_oneof![5 => Just(true), 1 => Just(false)])
        .prop_map(|(kind, k, v, mode, auto)| Spec { kind, k, v, mode, auto })
}

fn act(ok_bias: bool) -> impl Strategy<Value = Act> {
    (
        0u8..N_ACTIONS,
        prop::collection::vec(spec(ok_bias), 4),
        prop_oneof![3 => Just(9u8), 1 => 0u8..4],
        prop_oneof![4 => Just(true), 1 => Just(false)],
    )
        .prop_map(|(which, specs, stop, go)| Act { which, specs, stop, go })
}

fn case(max_branches: usize) -> impl Strategy<Value = Case> {
    (
        prop::collection::vec(act(true), 0..3),
        prop::collection::vec(prop::collection::vec(act(true), 1..3), 0..=max_branches),
        prop::collection::vec(act(true), 0..3),
        any::<bool>(),
        prop::collection::vec(act(false), 1..5),
    )
        .prop_map(|(prefix, branches, own, one_trx, tests)| Case { prefix, branches, own, one_trx, tests })
}

// ---------------------------------------------------------------------------------------------
// model

#[derive(Clone, Debug, PartialEq, Eq)]
pub struct ExpEff {
    pub tag: i64,
    pub kind: i64,
    pub k: i64,
    pub v: i64,
}

#[derive(Clone, Debug)]
pub struct Sim {
    /// the specs as passed to the VM (`auto` resolved)
    pub eff: Vec<Spec>,
    pub facts: BTreeMap<i64, i64>,
    pub effects: Vec<ExpEff>,
    pub published: usize,
    pub failed: Option<&'static str>,
}

impl Sim {
    fn publish(&mut self, i: usize, tag: i64) {
        if self.failed.is_some() {
            return;
        }
        if self.eff[i].auto {
            let present = self.facts.contains_key(&i64::from(self.eff[i].k));
            self.eff[i].kind = match (present, self.eff[i].kind) {
                (false, 3) => 3,
                (false, _) => 0,
                (true, k) if k % 2 == 0 => 2,
                (true, _) => 1,
            };
        }
        let s = &self.eff[i].clone();
        let (k, v) = (i64::from(s.k), i64::from(s.v));
        if s.mode == 1 {
            self.failed = Some("command check");
            return;
        }
        if s.mode == 2 {
            self.failed = Some("command panic");
            return;
        }
        let present = self.facts.contains_key(&k);
        let eff = ExpEff { tag, kind: i64::from(s.kind), k, v };
        match s.kind {
            0 => {
                if present {
                    self.failed = Some("create of present slot");
                    return;
                }
                self.facts.insert(k, v);
            }
            1 => {
                if !present {
                    self.failed = Some("update of absent slot");
                    return;
                }
                self.facts.insert(k, v);
            }
            2 => {
                if !present {
                    self.failed = Some("delete of absent slot");
                    return;
                }
                self.facts.remove(&k);
            }
            _ => {
                if present {
                    self.failed = Some("create of present slot");
                    return;
                }
                self.facts.insert(k, v);
                if !self.facts.contains_key(&v) {
                    self.failed = Some("finish block failed after a create");
                    return;
                }
                self.facts.insert(v, 7);
            }
        }
        self.effects.push(eff);
        self.published += 1;
    }

    fn stop(&mut self, cond: bool, why: &'static str) {
        if self.failed.is_none() && cond {
            self.failed = Some(why);
        }
    }
}

/// Mirrors the action bodies of `POLICY`.
pub fn simulate(facts: &BTreeMap<i64, i64>, a: &Act, tag0: i64, allow_finish_failure: bool) -> Sim {
    let mut eff = a.specs.clone();
    if !allow_finish_failure {
        // kind 3 can fail inside `finish` depending on the fact state; a command like that which is
        // accepted at its origin can later fail uncontrolled in a braid and make the graph
        // unmergeable (a defect of the policy, not of the runtime). Only commands that are never
        // braided afterwards may use it.
        for s in &mut eff {
            if s.kind == 3 {
                s.kind = 0;
            }
        }
    }
    let mut s = Sim {
        eff,
        facts: facts.clone(),
        effects: Vec::new(),
        published: 0,
        failed: None,
    };
    let sp = &a.specs;
    let t = |i: usize| tag0 + i as i64;
    match a.which {
        0 => s.publish(0, t(0)),
        1 => {
            s.publish(0, t(0));
            s.publish(1, t(1));
        }
        2 => {
            for i in 0..3 {
                s.publish(i, t(i));
            }
        }
        3 | 4 => {
            for i in 0..4 {
                s.publish(i, t(i));
            }
        }
        5 => {
            for i in 0..3 {
                s.publish(i, t(i));
            }
        }
        6 => {
            s.stop(a.stop == 0, "action returned Err");
            s.publish(0, t(0));
            s.stop(a.stop == 1, "action returned Err");
            s.publish(1, t(1));
            s.stop(a.stop == 2, "action returned Err");
            s.publish(2, t(2));
            s.stop(a.stop == 3, "action returned Err");
        }
        7 => {
            s.publish(0, t(0));
            if s.failed.is_none() && s.facts.contains_key(&i64::from(sp[0].k)) {
                s.publish(1, t(1));
            }
        }
        8 => {
            if a.go {
                s.publish(0, t(0));
            }
        }
        _ => {
            s.stop(a.stop == 0, "action check panicked");
            s.publish(0, t(0));
            s.stop(a.stop == 1, "action check panicked");
            s.publish(1, t(1));
            s.stop(a.stop == 2, "action check panicked");
        }
    }
    s
}

fn spec_value(s: &Spec, tag: i64) -> Value {
    Value::Struct(Struct::new(
        ident!("Spec"),
        [
            (ident!("kind"), Value::Int(i64::from(s.kind))),
            (ident!("k"), Value::Int(i64::from(s.k))),
            (ident!("v"), Value::Int(i64::from(s.v))),
            (ident!("mode"), Value::Int(i64::from(s.mode))),
            (ident!("tag"), Value::Int(tag)),
        ],
    ))
}

pub fn vm_action(a: &Act, eff: &[Spec], tag0: i64) -> VmAction<'static> {
    let sv = |i: usize| spec_value(&eff[i], tag0 + i as i64);
    let stop = Value::Int(i64::from(a.stop));
    let (name, args) = match a.which {
        0 => (ident!("a1"), vec![sv(0)]),
        1 => (ident!("a2"), vec![sv(0), sv(1)]),
        2 => (ident!("a3"), vec![sv(0), sv(1), sv(2)]),
        3 => (ident!("a4"), vec![sv(0), sv(1), sv(2), sv(3)]),
        4 => (ident!("nest"), vec![sv(0), sv(1), sv(2), sv(3)]),
        5 => (ident!("deep"), vec![sv(0), sv(1), sv(2)]),
        6 => (ident!("fall"), vec![sv(0), sv(1), sv(2), stop]),
        7 => (ident!("cond"), vec![sv(0), sv(1)]),
        8 => (ident!("maybe"), vec![sv(0), Value::Bool(a.go)]),
        _ => (ident!("chk"), vec![sv(0), sv(1), stop]),
    };
    VmAction { name, args: Cow::Owned(args) }
}

pub fn action_name(which: u8) -> &'static str {
    ["a1", "a2", "a3", "a4", "nest", "deep", "fall", "cond", "maybe", "chk"][usize::from(which.min(9))]
}

// ---------------------------------------------------------------------------------------------
// fact decoding (independent of the runtime's ser_key: written from the documented layout)

pub fn decode_int_key(part: &[u8], want_name: &str) -> Result<i64, String> {
    if part.len() < 8 {
        return Err("key part shorter than its length prefix".into());
    }
    let n = u64::from_be_bytes(part[..8].try_into().unwrap()) as usize;
    let rest = &part[8..];
    if rest.len() != n + 1 + 8 {
        return Err(format!("int key part has {} bytes after the prefix, want {}", rest.len(), n + 9));
    }
    if &rest[..n] != want_name.as_bytes() {
        return Err("key name differs".into());
    }
    if rest[n] != 0 {
        return Err(format!("key type tag {} is not Int", rest[n]));
    }
    let raw = u64::from_be_bytes(rest[n + 1..].try_into().unwrap());
    Ok((raw ^ (1u64 << 63)) as i64)
}

pub fn decode_slots(rows: &rt::FactRows) -> Result<BTreeMap<i64, i64>, String> {
    let mut m = BTreeMap::new();
    for (name, key, val) in rows {
        if name != "Slot" || key.len() != 1 {
            return Err(format!("unexpected fact {name} with {} key parts", key.len()));
        }
        let k = decode_int_key(&key[0], "k")?;
        let vals: Vec<FactValue> = postcard::from_bytes(val).map_err(|e| format!("value decode: {e}"))?;
        let [fv] = vals.as_slice() else {
            return Err(format!("Slot value has {} fields", vals.len()));
        };
        let Value::Int(v) = fv.value else {
            return Err("Slot.v is not an int".into());
        };
        if fv.identifier.as_str() != "v" {
            return Err("Slot value field is not v".into());
        }
        if m.insert(k, v).is_some() {
            return Err(format!("Slot[{k}] appears twice in the scan"));
        }
    }
    Ok(m)
}

// ---------------------------------------------------------------------------------------------
// clients

pub fn machine() -> Machine {
    rt::compile(POLICY, &[TestFfiEnvelope::SCHEMA]).unwrap_or_else(|e| {
        println!("INCONCLUSIVE C07 policy does not compile: {e}");
        std::process::exit(2);
    })
}

pub fn new_client(m: &Machine, dev: u8) -> Client<Eng> {
    let ffis: Vec<Box<dyn FfiCallable<Eng> + Send + 'static>> = vec![Box::from(TestFfiEnvelope {
        device: DeviceId::from_bytes([dev.wrapping_add(1); 32]),
    })];
    let policy = VmPolicy::new(m.clone(), rt::engine(u64::from(dev)), ffis).expect("VmPolicy::new");
    Client::new(Store { policy }, MemStorageProvider::default())
}

fn f(sig: &str, detail: String) -> Failure {
    Failure::new(sig, detail)
}

#[derive(Default)]
pub struct Stats {
    /// fault part only: the snapshot taken at the end of the previous operation; the next operation
    /// must start from exactly this state
    pub last: Option<rt::Snapshot>,
    pub fault_errs: u32,
    pub ok_after_fault: u32,
    pub next_tag: i64,
    pub fail_after_publish: u32,
    pub multi_head_tests: u32,
    pub multi_head_fail_after_publish: u32,
    pub ok_actions: u32,
    pub err_actions: u32,
}

/// Runs one action on `c` and checks the C07 statement around it. Returns whether it succeeded.
pub fn checked_action(
    c: &mut Client<Eng>,
    g: GraphId,
    bufs: &mut Buffers,
    a: &Act,
    st: &mut Stats,
    info: &mut CaseInfo,
    under_test: bool,
) -> Result<bool, Failure> {
    checked_action_on(c, g, bufs, a, st, info, under_test, None)
}

/// Heads, committed ids (graph walk) and fact scan of any client.
pub fn snap<SP: StorageProvider>(c: &mut ClientState<Store<Eng>, SP>, g: GraphId) -> Result<(rt::Snapshot, rt::GraphView), String> {
    let stg = c.provider().get_storage(g).map_err(|e| format!("get_storage: {e}"))?;
    let view = rt::walk(&*stg)?;
    let facts = rt::scan_facts(&*stg, FACT_NAMES)?;
    Ok((rt::Snapshot { heads: view.heads.clone(), ids: view.ids(), facts }, view))
}

/// `checked_action` on any storage provider; with `fault`, the storage fault is armed for exactly
/// the duration of the `ClientState::action` call (the harness' own reads are never faulted).
#[allow(clippy::too_many_arguments)]
pub fn checked_action_on<SP: StorageProvider>(
    c: &mut ClientState<Store<Eng>, SP>,
    g: GraphId,
    bufs: &mut RuntimeBuffers<SP::Segment>,
    a: &Act,
    st: &mut Stats,
    info: &mut CaseInfo,
    under_test: bool,
    fault: Option<(&FaultCtl, &Fault)>,
) -> Result<bool, Failure> {
    let tag0 = st.next_tag;
    st.next_tag += 4;
    let (pre, _pre_view) = snap(c, g).map_err(|e| f("harness: snapshot failed", e))?;
    if let Some(last) = &st.last {
        ensure!(pre.heads == last.heads, "head set changed between two operations", "action {} before={:?} now={:?}", action_name(a.which), last.heads, pre.heads);
        ensure!(pre.ids == last.ids, "committed command set changed between two operations", "action {}", action_name(a.which));
        ensure!(pre.facts == last.facts, "fact state changed between two operations", "action {}", action_name(a.which));
    }
    let pre_facts = decode_slots(&pre.facts).map_err(|e| f("stored facts do not decode", e))?;
    let sim = simulate(&pre_facts, a, tag0, under_test);
    let mut sink = RecSink::new();
    if let Some((ctl, fl)) = fault {
        ctl.arm(fl);
    }
    let res = c.action(g, &mut sink, vm_action(a, &sim.eff, tag0), bufs, MemSpill::new);
    let fired = fault.map(|(ctl, _)| ctl.disarm()).unwrap_or(0);
    let (post, view) = snap(c, g).map_err(|e| f("graph unreadable after action", e))?;
    if st.last.is_some() {
        st.last = Some(post.clone());
    }
    if let Some((_, fl)) = fault {
        let kind = fl.kind_name();
        match (fired > 0, res.is_ok()) {
            (false, _) => info.label(format!("fault_not_reached:{kind}")),
            (true, true) => info.label(format!("fault_tolerated:{kind}")),
            (true, false) => {
                info.label(format!("fault_err:{kind}"));
                info.label(format!("fault_err_heads_{}", pre.heads.len().min(3)));
                st.fault_errs += 1;
            }
        }
    } else if st.fault_errs > 0 && res.is_ok() && sim.published > 0 {
        st.ok_after_fault += 1;
    }
    let (committed, stray) = sink.committed();
    let name = action_name(a.which);
    let ctx = || format!("action {name} stop={} go={} specs={:?} tag0={tag0} heads_before={:?} model={:?}", a.stop, a.go, sim.eff, pre.heads, sim.failed);
    ensure!(stray == 0, "effect consumed outside begin/commit", "{}", ctx());
    let multi = pre.heads.len() > 1;
    if under_test && multi {
        st.multi_head_tests += 1;
    }

    match res {
        Ok(()) => {
            st.ok_actions += 1;
            if let Some(why) = sim.failed {
                fail!("action succeeded although a command or check in it fails", "{} ({why}); committed effects={committed:?}", ctx());
            }
            if sim.published == 0 {
                // nothing was published: nothing may change except (possibly) collapsing heads
                info.label("zero_publish_ok");
                ensure!(committed.is_empty(), "zero-publish action committed effects", "{}", ctx());
                ensure!(post.facts == pre.facts, "zero-publish action changed facts", "{}", ctx());
                ensure!(pre.ids.is_subset(&post.ids), "committed commands disappeared", "{}", ctx());
                return Ok(true);
            }
            ensure!(sink.count(&rt::Ev::Commit) == 1 && !sink.saw_rollback(), "successful action: sink not committed exactly once", "{} events={:?}", ctx(), sink.events);
            ensure!(post.heads.len() == 1, "successful action left more than one head", "{} heads_after={:?}", ctx(), post.heads);
            let head = post.heads[0];
            ensure!(!pre.ids.contains(&head.0), "successful action: head is an old command", "{}", ctx());
            ensure!(pre.ids.is_subset(&post.ids), "committed commands disappeared", "{} lost={:?}", ctx(), pre.ids.difference(&post.ids).collect::<Vec<_>>());
            let new_ids: Vec<CmdId> = post.ids.difference(&pre.ids).copied().collect();
            let merges = new_ids.iter().filter(|i| view.cmds[*i].0.is_merge()).count();
            let basics = new_ids.len() - merges;
            ensure!(basics == sim.published, "number of committed commands differs from number published", "{} new basic={basics} want={} new merges={merges}", ctx(), sim.published);
            ensure!(merges == pre.heads.len() - 1, "unexpected number of merge commands", "{} merges={merges} heads_before={}", ctx(), pre.heads.len());
            // the published commands form a chain ending in the head
            let mut chain: Vec<CmdId> = Vec::new();
            let mut cur = head.0;
            for _ in 0..sim.published {
                let (cmd, _) = &view.cmds[&cur];
                ensure!(new_ids.contains(&cur), "chain below the new head contains an old command", "{}", ctx());
                ensure!(cmd.priority == Priority::Basic(1), "published command has the wrong priority", "{} {:?}", ctx(), cmd.priority);
                chain.push(cur);
                match cmd.parent {
                    Prior::Single(p) => cur = p.id,
                    _ => fail!("published command does not have a single parent", "{} {:?}", ctx(), cmd.parent),
                }
            }
            chain.reverse();
            // `cur` is now the base the action started from
            if multi {
                ensure!(new_ids.contains(&cur) && view.cmds[&cur].0.is_merge(), "multi-head action does not start from a new merge command", "{}", ctx());
            } else {
                ensure!(cur == pre.heads[0].0, "single-head action does not start from the previous head", "{} base={cur}", ctx());
            }
            // descends from every previous head (graph walk) ...
            let anc = view.ancestors(head.0).map_err(|m| f("graph walk hit a missing parent", format!("{} missing={m}", ctx())))?;
            for h in &pre.heads {
                ensure!(anc.contains(&h.0), "new head does not descend from a previous head", "{} prev_head={}", ctx(), h.0);
            }
            ensure!(pre.ids.iter().all(|i| anc.contains(i)), "new head does not descend from every committed command", "{}", ctx());
            // ... and according to the storage's own ancestry query / lookup
            {
                let stg = c.provider().get_storage(g).map_err(|e| f("harness: get_storage", e.to_string()))?;
                let new_loc = Location::new(SegmentIndex::new(head.1), MaxCut::new(head.2));
                for h in &pre.heads {
                    let old = Location::new(SegmentIndex::new(h.1), MaxCut::new(h.2));
                    let r = stg.is_ancestor(old, new_loc, &mut bufs.traversal.primary).map_err(|e| f("is_ancestor failed", e.to_string()))?;
                    ensure!(r, "is_ancestor(previous head, new head) is false", "{} prev={:?}", ctx(), h);
                }
                for id in &chain {
                    let addr = Address { id: *id, max_cut: MaxCut::new(view.cmds[id].0.max_cut()) };
                    let r = stg.get_location(addr, &mut bufs.traversal.primary).map_err(|e| f("get_location failed", e.to_string()))?;
                    ensure!(r == Some(view.cmds[id].1), "get_location does not find a published command", "{} id={id} got={r:?}", ctx());
                }
            }
            // facts
            let post_facts = decode_slots(&post.facts).map_err(|e| f("stored facts do not decode", e))?;
            ensure!(post_facts == sim.facts, "facts after a successful action differ from the model", "{} got={post_facts:?} want={:?} before={pre_facts:?}", ctx(), sim.facts);
            // effects, in publish order, bound to the chain
            ensure!(committed.len() == sim.effects.len(), "number of committed effects differs", "{} got={committed:?} want={:?}", ctx(), sim.effects);
            for (i, (got, want)) in committed.iter().zip(&sim.effects).enumerate() {
                let fields: BTreeMap<&str, &Value> = got.fields.iter().map(|kv| (kv.key().as_str(), kv.value())).collect();
                let wantf: BTreeMap<&str, Value> = [("tag", want.tag), ("kind", want.kind), ("k", want.k), ("v", want.v)].into_iter().map(|(k, v)| (k, Value::Int(v))).collect();
                let same = got.name.as_str() == "Did" && fields.len() == wantf.len() && wantf.iter().all(|(k, v)| fields.get(k) == Some(&v));
                ensure!(same, "committed effect differs from the model (order or content)", "{} #{i} got={got:?} want={want:?}", ctx());
                ensure!(!got.recalled, "committed effect is marked recalled", "{} #{i}", ctx());
                ensure!(got.command == chain[i], "effect is not attributed to the command published at that position", "{} #{i} effect.command={} chain={chain:?}", ctx(), got.command);
            }
            if under_test {
                info.label(if multi { "ok_on_multi_head" } else { "ok_on_single_head" });
            }
            Ok(true)
        }
        Err(e) => {
            st.err_actions += 1;
            if sim.failed.is_none() && sim.published > 0 && fired == 0 {
                fail!("action failed although the model says it succeeds", "{} error={e}", ctx());
            }
            if fired > 0 && sim.failed.is_none() {
                // how the injected fault surfaced is not prescribed (a faulted fact query surfaces as a policy error)
                info.label(if matches!(e, ClientError::StorageError(_)) { "fault_surfaced_as_storage_error" } else { "fault_surfaced_as_other_error" });
            }
            if sim.failed.is_none() && fired == 0 {
                info.label("zero_publish_err");
            }
            ensure!(post.heads == pre.heads, "failed action changed the head set", "{} error={e} after={:?}", ctx(), post.heads);
            ensure!(post.ids == pre.ids, "failed action changed the committed command set", "{} error={e} added={:?} lost={:?}", ctx(), post.ids.difference(&pre.ids).collect::<Vec<_>>(), pre.ids.difference(&post.ids).collect::<Vec<_>>());
            ensure!(post.facts == pre.facts, "failed action changed the fact state", "{} error={e} before={:?} after={:?}", ctx(), pre_facts, decode_slots(&post.facts));
            ensure!(committed.is_empty() && !sink.saw_commit(), "failed action committed effects", "{} error={e} events={:?}", ctx(), sink.events);
            if !sink.saw_rollback() {
                info.label("err_without_rollback");
            }
            if under_test {
                info.label(format!("err:{}", sim.failed.unwrap_or(if fired > 0 { "injected storage fault" } else { "nothing published" })));
            }
            if sim.published > 0 {
                st.fail_after_publish += 1;
                if under_test {
                    info.label(format!("fail_after_{}_publishes", sim.published));
                }
                if multi {
                    st.multi_head_fail_after_publish += 1;
                }
            }
            Ok(false)
        }
    }
}

pub fn check_case(m: &Machine, case: &Case, info: &mut CaseInfo) -> CheckResult {
    let mut bufs: Box<Buffers> = Box::new(Buffers::new());
    let mut st = Stats { next_tag: 1, ..Stats::default() };
    let mut c0 = new_client(m, 0);
    let mut sink = RecSink::new();
    let g = c0
        .new_graph(&[0u8], VmAction { name: ident!("init"), args: Cow::Owned(vec![Value::Int(1)]) }, &mut sink)
        .map_err(|e| f("harness: new_graph failed", e.to_string()))?;
    for a in &case.prefix {
        checked_action(&mut c0, g, &mut bufs, a, &mut st, info, false)?;
    }
    // fork
    let mut others: Vec<Client<Eng>> = Vec::new();
    for (i, acts) in case.branches.iter().enumerate() {
        let mut ci = new_client(m, (i + 1) as u8);
        let mut s = RecSink::new();
        rt::transfer(&mut c0, &mut ci, g, &mut s, &mut bufs).map_err(|e| f("harness: transfer to branch client failed", e))?;
        for a in acts {
            checked_action(&mut ci, g, &mut bufs, a, &mut st, info, false)?;
        }
        others.push(ci);
    }
    for a in &case.own {
        checked_action(&mut c0, g, &mut bufs, a, &mut st, info, false)?;
    }
    // join: client 0 receives every branch
    if case.one_trx {
        let mut all: Vec<rt::OwnedCmd> = Vec::new();
        for ci in &mut others {
            let stg = ci.provider().get_storage(g).map_err(|e| f("harness: get_storage", e.to_string()))?;
            all.extend(rt::walk(&*stg).map_err(|e| f("harness: walk", e))?.topo());
        }
        all.sort_by_key(|c| (c.max_cut(), c.id));
        all.dedup_by_key(|c| c.id);
        let mut s = RecSink::new();
        rt::deliver(&mut c0, g, &all, &mut s, &mut bufs).map_err(|e| f("harness: delivering branches failed", e.to_string()))?;
    } else {
        for ci in &mut others {
            let mut s = RecSink::new();
            rt::transfer(ci, &mut c0, g, &mut s, &mut bufs).map_err(|e| f("harness: delivering a branch failed", e))?;
        }
    }
    let heads = {
        let stg = c0.provider().get_storage(g).map_err(|e| f("harness: get_storage", e.to_string()))?;
        stg.get_heads().map_err(|e| f("harness: get_heads", e.to_string()))?.len()
    };
    info.label(format!("start_heads_{heads}"));
    for a in &case.tests {
        checked_action(&mut c0, g, &mut bufs, a, &mut st, info, true)?;
    }
    if st.multi_head_tests > 0 || st.fail_after_publish > 0 {
        info.nontrivial();
    }
    if st.multi_head_fail_after_publish > 0 {
        info.label("fail_after_publish_on_multi_head");
    }
    if st.fail_after_publish > 0 {
        info.label("fail_after_publish");
    }
    Ok(())
}

// ---------------------------------------------------------------------------------------------
// fault-injecting storage back end (wraps the in-memory linear back end through the public
// IoManager / Write / Read traits)

pub const FK_COMMIT: u8 = 0;
pub const FK_APPEND: u8 = 1;
pub const FK_FETCH: u8 = 2;

/// The `k`-th (0-based) back-end call of `kind` after arming fails with `StorageError::IoError`
/// without reaching the wrapped back end; `sticky`: every later call of that kind fails as well
/// (until disarmed).
#[derive(Clone, Debug, Serialize, Deserialize, PartialEq, Eq)]
pub struct Fault {
    pub kind: u8,
    pub k: u8,
    pub sticky: bool,
}

impl Fault {
    pub fn kind_name(&self) -> &'static str {
        match self.kind {
            FK_COMMIT => "commit",
            FK_APPEND => "append",
            _ => "fetch",
        }
    }
}

#[derive(Default)]
struct CtlState {
    armed: Option<Fault>,
    seen: u32,
    fired: u32,
}

#[derive(Default)]
pub struct FaultCtl(Mutex<CtlState>);

impl FaultCtl {
    pub fn arm(&self, f: &Fault) {
        let mut s = self.0.lock().expect("ctl");
        *s = CtlState { armed: Some(f.clone()), seen: 0, fired: 0 };
    }

    /// Disarms; returns how many calls were failed since arming.
    pub fn disarm(&self) -> u32 {
        let mut s = self.0.lock().expect("ctl");
        s.armed = None;
        s.fired
    }

    fn hit(&self, kind: u8) -> bool {
        let mut s = self.0.lock().expect("ctl");
        let Some(f) = s.armed.clone() else { return false };
        if f.kind != kind {
            return false;
        }
        let n = s.seen;
        s.seen += 1;
        if n == u32::from(f.k) || (f.sticky && n > u32::from(f.k)) {
            s.fired += 1;
            return true;
        }
        false
    }
}

pub struct FManager {
    inner: Manager,
    ctl: Arc<FaultCtl>,
}

pub struct FWriter {
    inner: Writer,
    ctl: Arc<FaultCtl>,
}

#[derive(Clone)]
pub struct FReader {
    inner: Reader,
    ctl: Arc<FaultCtl>,
}

impl IoManager for FManager {
    type Writer = FWriter;

    fn create(&mut self, id: GraphId) -> Result<Self::Writer, StorageError> {
        Ok(FWriter { inner: self.inner.create(id)?, ctl: Arc::clone(&self.ctl) })
    }

    fn open(&mut self, _id: GraphId) -> Result<Option<Self::Writer>, StorageError> {
        Ok(None)
    }

    fn remove(&mut self, id: GraphId) -> Result<(), StorageError> {
        self.inner.remove(id)
    }

    fn list(&mut self) -> Result<impl Iterator<Item = Result<GraphId, StorageError>>, StorageError> {
        self.inner.list()
    }
}

impl Write for FWriter {
    type ReadOnly = FReader;

    fn readonly(&self) -> Self::ReadOnly {
        FReader { inner: self.inner.readonly(), ctl: Arc::clone(&self.ctl) }
    }

    fn heads(&self) -> Result<HeadSet, StorageError> {
        self.inner.heads()
    }

    fn heads_offset(&self) -> Result<HeadSetOffset, StorageError> {
        self.inner.heads_offset()
    }

    fn fact_cache(&self) -> Result<FactCacheOffset, StorageError> {
        self.inner.fact_cache()
    }

    fn append<F, T>(&mut self, builder: F) -> Result<T, StorageError>
    where
        F: FnOnce(u64) -> T,
        T: serde::Serialize,
    {
        if self.ctl.hit(FK_APPEND) {
            // nothing was written
            return Err(StorageError::IoError);
        }
        self.inner.append(builder)
    }

    fn commit(&mut self, heads: &HeadSet, fact_cache: FactCacheOffset) -> Result<(), StorageError> {
        if self.ctl.hit(FK_COMMIT) {
            // the control record could not be written: nothing is committed
            return Err(StorageError::IoError);
        }
        self.inner.commit(heads, fact_cache)
    }
}

impl Read for FReader {
    fn fetch<T>(&self, offset: u64) -> Result<T, StorageError>
    where
        T: serde::de::DeserializeOwned,
    {
        if self.ctl.hit(FK_FETCH) {
            return Err(StorageError::IoError);
        }
        self.inner.fetch(offset)
    }
}

pub type FProvider = LinearStorageProvider<FManager>;
pub type FClient = ClientState<Store<Eng>, FProvider>;
pub type FBuffers = RuntimeBuffers<<FProvider as StorageProvider>::Segment>;

pub fn new_fclient(m: &Machine, dev: u8, ctl: &Arc<FaultCtl>) -> FClient {
    let ffis: Vec<Box<dyn FfiCallable<Eng> + Send + 'static>> = vec![Box::from(TestFfiEnvelope {
        device: DeviceId::from_bytes([dev.wrapping_add(1); 32]),
    })];
    let policy = VmPolicy::new(m.clone(), rt::engine(u64::from(dev)), ffis).expect("VmPolicy::new");
    ClientState::new(Store { policy }, LinearStorageProvider::new(FManager { inner: Manager::new(), ctl: Arc::clone(ctl) }))
}

#[derive(Clone, Debug, Serialize, Deserialize)]
pub struct FCase {
    pub base: Case,
    /// fault for the i-th action under test (missing / null = none)
    pub faults: Vec<Option<Fault>>,
    /// fault for the first attempt to deliver the branches to client 0
    pub deliver: Option<Fault>,
}

fn fault() -> impl Strategy<Value = Fault> {
    (
        prop_oneof![
            5 => (Just(FK_COMMIT), prop_oneof![6 => Just(0u8), 1 => 1u8..3]),
            3 => (Just(FK_APPEND), 0u8..6),
            3 => (Just(FK_FETCH), prop_oneof![3 => 0u8..8, 1 => 8u8..40]),
        ],
        any::<bool>(),
    )
        .prop_map(|((kind, k), sticky)| Fault { kind, k, sticky })
}

fn fcase() -> impl Strategy<Value = FCase> {
    (
        case(2),
        prop::collection::vec(prop::option::weighted(0.6, fault()), 4),
        prop::option::weighted(0.35, fault()),
    )
        .prop_map(|(base, faults, deliver)| FCase { base, faults, deliver })
}

fn deliver_on<SP: StorageProvider>(
    dst: &mut ClientState<Store<Eng>, SP>,
    g: GraphId,
    cmds: &[rt::OwnedCmd],
    bufs: &mut RuntimeBuffers<SP::Segment>,
) -> Result<usize, ClientError> {
    let mut sink = RecSink::new();
    let mut trx = dst.transaction(g);
    let n = dst.add_commands(&mut trx, &mut sink, cmds, bufs, MemSpill::new)?;
    dst.commit(trx, &mut sink, bufs, MemSpill::new)?;
    Ok(n)
}

fn all_cmds<SP: StorageProvider>(c: &mut ClientState<Store<Eng>, SP>, g: GraphId) -> Result<Vec<rt::OwnedCmd>, Failure> {
    let stg = c.provider().get_storage(g).map_err(|e| f("harness: get_storage", e.to_string()))?;
    Ok(rt::walk(&*stg).map_err(|e| f("harness: walk", e))?.topo())
}

/// Delivers `cmds` to `c0`; with a fault, the first attempt runs with the fault armed and, if it
/// fails, must leave heads / committed ids / facts untouched, and the retry (fresh transaction,
/// fault cleared) must succeed.
fn deliver_with_fault(
    c0: &mut FClient,
    ctl: &FaultCtl,
    g: GraphId,
    cmds: &[rt::OwnedCmd],
    bufs: &mut FBuffers,
    fault: Option<&Fault>,
    st: &mut Stats,
    info: &mut CaseInfo,
) -> CheckResult {
    if let Some(fl) = fault {
        let (pre, _) = snap(c0, g).map_err(|e| f("harness: snapshot failed", e))?;
        ctl.arm(fl);
        let r = deliver_on(c0, g, cmds, bufs);
        let fired = ctl.disarm();
        let kind = fl.kind_name();
        match r {
            Ok(_) => {
                info.label(if fired > 0 { format!("deliver_fault_tolerated:{kind}") } else { format!("deliver_fault_not_reached:{kind}") });
                return Ok(());
            }
            Err(e) => {
                ensure!(fired > 0, "harness: delivering branches failed without a fault", "{e}");
                info.label(format!("deliver_fault_err:{kind}"));
                st.fault_errs += 1;
                let (post, _) = snap(c0, g).map_err(|e| f("graph unreadable after a failed transaction", e))?;
                ensure!(post.heads == pre.heads, "failed transaction changed the head set", "fault={fl:?} error={e} before={:?} after={:?}", pre.heads, post.heads);
                ensure!(post.ids == pre.ids, "failed transaction changed the committed command set", "fault={fl:?} error={e} added={:?}", post.ids.difference(&pre.ids).collect::<Vec<_>>());
                ensure!(post.facts == pre.facts, "failed transaction changed the fact state", "fault={fl:?} error={e}");
            }
        }
    }
    deliver_on(c0, g, cmds, bufs).map_err(|e| f(if fault.is_some() { "delivery fails after the storage fault was cleared" } else { "harness: delivering branches failed" }, e.to_string()))?;
    Ok(())
}

/// The scenario of `check_case` on the fault-injecting back end. Faults are armed only around the
/// calls under test on client 0.
pub fn check_fault_case(m: &Machine, fc: &FCase, info: &mut CaseInfo) -> CheckResult {
    let case = &fc.base;
    let mut bufs: Box<FBuffers> = Box::new(FBuffers::new());
    let mut st = Stats { next_tag: 1, ..Stats::default() };
    let ctl0 = Arc::new(FaultCtl::default());
    let mut c0 = new_fclient(m, 0, &ctl0);
    let mut sink = RecSink::new();
    let g = c0
        .new_graph(&[0u8], VmAction { name: ident!("init"), args: Cow::Owned(vec![Value::Int(1)]) }, &mut sink)
        .map_err(|e| f("harness: new_graph failed", e.to_string()))?;
    for a in &case.prefix {
        checked_action_on(&mut c0, g, &mut bufs, a, &mut st, info, false, None)?;
    }
    let mut others: Vec<FClient> = Vec::new();
    for (i, acts) in case.branches.iter().enumerate() {
        let mut ci = new_fclient(m, (i + 1) as u8, &Arc::new(FaultCtl::default()));
        let cmds = all_cmds(&mut c0, g)?;
        deliver_on(&mut ci, g, &cmds, &mut bufs).map_err(|e| f("harness: transfer to branch client failed", e.to_string()))?;
        for a in acts {
            checked_action_on(&mut ci, g, &mut bufs, a, &mut st, info, false, None)?;
        }
        others.push(ci);
    }
    for a in &case.own {
        checked_action_on(&mut c0, g, &mut bufs, a, &mut st, info, false, None)?;
    }
    // join: the first delivery may run under a fault
    let mut dfault = fc.deliver.as_ref();
    if case.one_trx {
        let mut all: Vec<rt::OwnedCmd> = Vec::new();
        for ci in &mut others {
            all.extend(all_cmds(ci, g)?);
        }
        all.sort_by_key(|c| (c.max_cut(), c.id));
        all.dedup_by_key(|c| c.id);
        if !all.is_empty() {
            deliver_with_fault(&mut c0, &ctl0, g, &all, &mut bufs, dfault.take(), &mut st, info)?;
        }
    } else {
        for ci in &mut others {
            let cmds = all_cmds(ci, g)?;
            deliver_with_fault(&mut c0, &ctl0, g, &cmds, &mut bufs, dfault.take(), &mut st, info)?;
        }
    }
    let (start, _) = snap(&mut c0, g).map_err(|e| f("harness: snapshot failed", e))?;
    info.label(format!("start_heads_{}", start.heads.len()));
    // from here on every operation must start from the state the previous one ended in
    st.last = Some(start);
    for (i, a) in case.tests.iter().enumerate() {
        let fl = fc.faults.get(i).and_then(|x| x.as_ref());
        checked_action_on(&mut c0, g, &mut bufs, a, &mut st, info, true, fl.map(|x| (&*ctl0, x)))?;
    }
    // with the fault cleared the client must keep working, and what it commits must be exactly
    // what the model (which ignores the failed operations) says: two plain single-publish actions
    for k in [0u8, 1] {
        let probe = Act { which: 0, specs: vec![Spec { kind: 0, k, v: 1, mode: 0, auto: true }; 4], stop: 9, go: true };
        let ok = checked_action_on(&mut c0, g, &mut bufs, &probe, &mut st, info, false, None)?;
        ensure!(ok, "plain action fails after the storage fault was cleared", "probe k={k}");
    }
    if st.fault_errs > 0 {
        info.nontrivial();
        info.label("fault_err_then_ok");
    }
    Ok(())
}

pub fn run(ctx: &Ctx) -> ! {
    let mut rep = Report::new(ctx, "exploration");
    rep.assume("\"graph contents\" = the set of commands reachable from the committed heads (walked through Storage::get_segment / Segment::prior); segments written but never referenced by a committed head (e.g. the merge segments collapse_heads writes before a failing action) are not observable through the storage API and are not counted");
    rep.assume("an action that publishes nothing may either succeed or fail (ClientState::action returns EmptyPerspective); in both cases facts, committed commands and committed effects must be unchanged");
    rep.assume("fact state before an action is read from Storage::fact_cache and trusted as the model's starting point (merge correctness is C01-C04); the model then applies the policy text's create/update/delete semantics");
    rep.assume("storage is MemStorageProvider (linear storage over the in-memory IoManager); multi-head states are built by divergent clients whose commands are delivered with add_commands + commit");
    let m = machine();
    let n = ctx.pick(12_000, 400_000);
    rep.explore(
        "single_and_multi_head",
        "fixed policy (10 actions: 1-4 publishes, nested action calls, result-returning action, action-level check, conditional publish, \
         zero publishes; commands that create/update/delete, fail a check -> recall, todo()-panic, or fail inside finish after a create); \
         generated: 0-2 prefix actions, 0-3 divergent clients with 1-2 actions each, 0-1 own actions, delivery in one or several transactions, \
         then 1-4 actions under test with generated failure positions; every action on every client is checked; \
         non-trivial = an action failed after >=1 successfully evaluated publish, or an action under test started from >=2 heads",
        || case(3),
        n,
        |c: &Case, info| check_case(&m, c, info),
    );
    rep.explore(
        "single_head_long",
        "same policy, one client, 6-26 actions in a row on a single-head graph (long fact histories, fact-index compaction)",
        || {
            prop::collection::vec(act(false), 6..27).prop_map(|tests| Case {
                prefix: vec![],
                branches: vec![],
                own: vec![],
                one_trx: true,
                tests,
            })
        },
        n / 3,
        |c: &Case, info| check_case(&m, c, info),
    );
    rep.assume("storage faults: the in-memory linear back end wrapped through the public IoManager/Write/Read traits; a faulted append / commit / fetch returns StorageError::IoError and does not reach the back end (nothing is written); faults are armed only for the duration of the ClientState call under test");
    rep.explore(
        "storage_faults",
        "the single_and_multi_head scenario (0-2 divergent clients) on a fault-injecting storage back end: for each action under test \
         optionally the k-th Write::commit (k mostly 0) / Write::append (k<6) / Read::fetch (k<40) during that action fails, once or from then on; \
         optionally the same kind of fault during the first delivery of the branches (add_commands + commit). Oracle: an operation that returns Err \
         leaves heads, committed ids (graph walk) and the fact scan exactly as before and commits no effects; an action that returns Ok is a complete commit per the model; \
         every operation starts from exactly the state the previous one ended in; after the fault is cleared delivery and two plain actions succeed and commit exactly what \
         the model (ignoring the failed operations) says; non-trivial = at least one operation failed because of an injected fault",
        fcase,
        n / 3,
        |c: &FCase, info| check_fault_case(&m, c, info),
    );
    rep.finish()
}
