//! C29: fact queries in policies (query / exists / count_up_to / at_least / at_most / exactly / map,
//! create / update / delete) on the runtime's storage vs. an ordered model store.
use std::{borrow::Cow, collections::BTreeMap, fmt::Write as _};

use aranya_crypto::{BaseId, DeviceId};
use aranya_policy_vm::{FactValue, Identifier, Text, Value, ffi::FfiModule as _, ident};
use aranya_runtime::{
    FfiCallable, MemSpill, VmAction, VmPolicy, storage::linear::testing::MemStorageProvider,
    vm_policy::testing::TestFfiEnvelope,
};
use proptest::prelude::*;
use serde::{Deserialize, Serialize};
use vcommon::{CaseInfo, CheckResult, Ctx, Failure, Report, ensure, fail};

use crate::rt::{self, Buffers, Client, Eng, RecSink, Store};

// ---------------------------------------------------------------------------------------------
// case

#[derive(Clone, Copy, Debug, Serialize, Deserialize, PartialEq, Eq)]
pub enum Ty {
    Int,
    Bool,
    Str,
    Id,
    Enum,
}

#[derive(Clone, Debug, Serialize, Deserialize)]
pub struct Schema {
    pub keys: Vec<Ty>,
    pub vals: Vec<Ty>,
}

#[derive(Clone, Debug, Serialize, Deserialize)]
pub enum Op {
    /// create a fact (turned into an update when the key is present in the model);
    /// `like`: copy the first `like.1` key fields from an existing fact (shared key prefixes)
    Create { key: Vec<u8>, val: Vec<u8>, like: Option<(u16, u8)> },
    /// update an existing fact; `from`: 0 = `{v: ?}`, 1 = the current values, 2 = other values (must fail)
    Update { pick: u16, val: Vec<u8>, from: u8 },
    Delete { pick: u16 },
    /// `kind`: 0 query 1 exists 2 count_up_to 3 at_least 4 at_most 5 exactly 6 map
    Query {
        kind: u8,
        /// take the literal keys/values from this existing fact (None: from `key`/`val`)
        hit: Option<u16>,
        key: Vec<u8>,
        val: Vec<u8>,
        /// number of leading key fields that are given (the rest are `?`)
        plen: u8,
        /// bit i set = value field i is given, otherwise `?`
        vmask: u8,
        limit: u8,
        /// write `F[...]` without a value block when no value is given
        omit_vals: bool,
    },
}

#[derive(Clone, Debug, Serialize, Deserialize)]
pub struct Case {
    pub schema: Schema,
    /// one action per batch
    pub batches: Vec<Vec<Op>>,
    /// embed values as literals in the policy text where the language has a literal for them
    pub literals: bool,
}

fn ty() -> impl Strategy<Value = Ty> {
    prop_oneof![3 => Just(Ty::Int), 1 => Just(Ty::Bool), 2 => Just(Ty::Str), 1 => Just(Ty::Id), 1 => Just(Ty::Enum)]
}

fn schema() -> impl Strategy<Value = Schema> {
    (prop::collection::vec(ty(), 1..=3), prop::collection::vec(ty(), 0..=2)).prop_map(|(keys, vals)| Schema { keys, vals })
}

fn atoms(n: usize) -> impl Strategy<Value = Vec<u8>> {
    prop::collection::vec(any::<u8>(), n)
}

fn op(nk: usize, nv: usize) -> impl Strategy<Value = Op> {
    prop_oneof![
        7 => (atoms(nk), atoms(nv), prop::option::weighted(0.5, (any::<u16>(), 1u8..3))).prop_map(|(key, val, like)| Op::Create { key, val, like }),
        2 => (any::<u16>(), atoms(nv), prop_oneof![2 => Just(0u8), 2 => Just(1u8), 1 => Just(2u8)]).prop_map(|(pick, val, from)| Op::Update { pick, val, from }),
        1 => any::<u16>().prop_map(|pick| Op::Delete { pick }),
        9 => (
            0u8..7,
            prop::option::weighted(0.7, any::<u16>()),
            atoms(nk),
            atoms(nv),
            0u8..=(nk as u8),
            0u8..4,
            1u8..=4,
            any::<bool>(),
        )
            .prop_map(|(kind, hit, key, val, plen, vmask, limit, omit_vals)| Op::Query { kind, hit, key, val, plen, vmask, limit, omit_vals }),
    ]
}

fn case(min_batches: usize, max_batches: usize, max_ops: usize) -> impl Strategy<Value = Case> {
    schema().prop_flat_map(move |s| {
        let (nk, nv) = (s.keys.len(), s.vals.len());
        (Just(s), prop::collection::vec(prop::collection::vec(op(nk, nv), 1..=max_ops), min_batches..=max_batches), any::<bool>())
            .prop_map(|(schema, batches, literals)| Case { schema, batches, literals })
    })
}

// ---------------------------------------------------------------------------------------------
// model values

#[derive(Clone, Debug, PartialEq, Eq, PartialOrd, Ord)]
pub enum MV {
    Int(i64),
    Bool(bool),
    Str(String),
    Id([u8; 32]),
    Enum(i64),
}

const INTS: &[i64] = &[i64::MIN, -65536, -256, -2, -1, 0, 1, 2, 127, 128, 255, 256, 65535, i64::MAX];
const STRS: &[&str] = &["", "a", "ab", "abc", "b", "B", "a b", "\u{e9}", "zz", "a\u{1}", "\u{10348}"];
const ENUM_NAMES: &[&str] = &["Red", "Green", "Blue", "Pink"];

fn id_pattern(i: usize) -> [u8; 32] {
    let mut b = [0u8; 32];
    match i {
        0 => {}
        1 => b[31] = 1,
        2 => b[0] = 1,
        3 => b = [0x7f; 32],
        4 => b = [0x80; 32],
        5 => {
            b = [0x80; 32];
            b[31] = 0x81;
        }
        _ => b = [0xff; 32],
    }
    b
}

fn pick(a: u8, len: usize) -> usize {
    (usize::from(a) * len) >> 8
}

fn mv(t: Ty, a: u8) -> MV {
    match t {
        Ty::Int => MV::Int(INTS[pick(a, INTS.len())]),
        Ty::Bool => MV::Bool(a >= 128),
        Ty::Str => MV::Str(STRS[pick(a, STRS.len())].to_string()),
        Ty::Id => MV::Id(id_pattern(pick(a, 7))),
        Ty::Enum => MV::Enum(pick(a, ENUM_NAMES.len()) as i64),
    }
}

fn to_value(v: &MV) -> Value {
    match v {
        MV::Int(i) => Value::Int(*i),
        MV::Bool(b) => Value::Bool(*b),
        MV::Str(s) => Value::String(s.parse::<Text>().expect("text")),
        MV::Id(b) => Value::Id(BaseId::from_bytes(*b)),
        MV::Enum(i) => Value::Enum(ident!("Color"), *i),
    }
}

fn from_value(v: &Value) -> Option<MV> {
    Some(match v {
        Value::Int(i) => MV::Int(*i),
        Value::Bool(b) => MV::Bool(*b),
        Value::String(s) => MV::Str(s.as_str().to_string()),
        Value::Id(b) => MV::Id(*b.as_array()),
        Value::Enum(n, i) if n.as_str() == "Color" => MV::Enum(*i),
        _ => return None,
    })
}

fn ty_text(t: Ty) -> &'static str {
    match t {
        Ty::Int => "int",
        Ty::Bool => "bool",
        Ty::Str => "string",
        Ty::Id => "id",
        Ty::Enum => "enum Color",
    }
}

/// Literal text for a value, if the language has one that we trust to mean this value.
fn literal(v: &MV) -> Option<String> {
    match v {
        MV::Int(i) if *i > i64::MIN => Some(i.to_string()),
        MV::Int(_) => None,
        MV::Bool(b) => Some(b.to_string()),
        MV::Str(s) if s.chars().all(|c| c.is_ascii_alphanumeric() || c == ' ') => Some(format!("\"{s}\"")),
        MV::Str(_) => None,
        MV::Id(_) => None,
        MV::Enum(i) => Some(format!("Color::{}", ENUM_NAMES[*i as usize])),
    }
}

const KINDS: [&str; 7] = ["query", "exists", "count_up_to", "at_least", "at_most", "exactly", "map"];

type Key = Vec<MV>;
type Model = BTreeMap<Key, Vec<MV>>;

// ---------------------------------------------------------------------------------------------
// planning: resolve ops against the model, compute expectations, generate policy text

#[derive(Clone, Debug, PartialEq, Eq)]
pub enum Exp {
    Row { tag: i64, key: Key, val: Vec<MV> },
    Miss { tag: i64 },
    Cnt { tag: i64, n: i64 },
    Flag { tag: i64, b: bool },
}

/// What one query operation must produce (a contiguous run of effects carrying its tag).
#[derive(Clone, Debug)]
struct OpExp {
    tag: i64,
    kind: u8,
    want: Vec<Exp>,
    /// for `map` with a given value field: what visiting every fact under the key prefix would
    /// produce, when that differs from `want` (recognises known finding "map ignores value fields")
    unfiltered: Option<Vec<Exp>>,
}

struct Batch {
    action: String,
    args: Vec<Value>,
    expect_ok: bool,
    effects: Vec<OpExp>,
    model_after: Model,
}

struct Gen<'a> {
    schema: &'a Schema,
    literals: bool,
    commands: String,
    actions: String,
    next_tag: i64,
    next_q: usize,
}

struct ActionText {
    params: Vec<(Ty, Value)>,
    body: String,
}

impl ActionText {
    /// expression text for `v` inside the action body
    fn expr(&mut self, t: Ty, v: &MV, literals: bool) -> String {
        if literals {
            if let Some(l) = literal(v) {
                return l;
            }
        }
        self.params.push((t, to_value(v)));
        format!("p{}", self.params.len() - 1)
    }
}

fn key_name(i: usize) -> String {
    format!("k{i}")
}
fn val_name(i: usize) -> String {
    format!("v{i}")
}

const SEAL_OPEN: &str = "    seal { return envelope::do_seal(payload) }\n    open { return envelope::do_open(payload, envelope) }\n";

impl Gen<'_> {
    fn all_fields_decl(&self, with_tag: bool) -> String {
        let mut s = String::new();
        if with_tag {
            s.push_str("tag int, ");
        }
        for (i, t) in self.schema.keys.iter().enumerate() {
            let _ = write!(s, "{} {}, ", key_name(i), ty_text(*t));
        }
        for (i, t) in self.schema.vals.iter().enumerate() {
            let _ = write!(s, "{} {}, ", val_name(i), ty_text(*t));
        }
        s
    }

    fn header(&self) -> String {
        let s = self.schema;
        let keys: Vec<String> = s.keys.iter().enumerate().map(|(i, t)| format!("{} {}", key_name(i), ty_text(*t))).collect();
        let vals: Vec<String> = s.vals.iter().enumerate().map(|(i, t)| format!("{} {}", val_name(i), ty_text(*t))).collect();
        let this_keys: Vec<String> = (0..s.keys.len()).map(|i| format!("{0}: this.{0}", key_name(i))).collect();
        let this_vals: Vec<String> = (0..s.vals.len()).map(|i| format!("{0}: this.{0}", val_name(i))).collect();
        let bind_vals: Vec<String> = (0..s.vals.len()).map(|i| format!("{}: ?", val_name(i))).collect();
        let old_vals: Vec<String> = (0..s.vals.len()).map(|i| format!("{}: this.o{i}", val_name(i))).collect();
        let old_decl: Vec<String> = s.vals.iter().enumerate().map(|(i, t)| format!("o{i} {}", ty_text(*t))).collect();
        let mut t = String::new();
        let _ = write!(
            t,
            "use envelope\n\nenum Color {{ Red, Green, Blue, Pink }}\n\nfact F[{}]=>{{{}}}\n\n\
             effect Row {{ {} }}\neffect Miss {{ tag int }}\neffect Cnt {{ tag int, n int }}\neffect Flag {{ tag int, b bool }}\n\n\
             command Init {{\n    attributes {{ init: true }}\n    fields {{ nonce int }}\n{SEAL_OPEN}    policy {{ finish {{}} }}\n}}\n\
             action init(nonce int) {{ publish Init {{ nonce: nonce }} }}\n\n",
            keys.join(", "),
            vals.join(", "),
            self.all_fields_decl(true),
        );
        let _ = write!(
            t,
            "command Create {{\n    attributes {{ priority: 1 }}\n    fields {{ {} }}\n{SEAL_OPEN}    policy {{ finish {{ create F[{}]=>{{{}}} }} }}\n}}\n\n",
            self.all_fields_decl(false),
            this_keys.join(", "),
            this_vals.join(", "),
        );
        if !s.vals.is_empty() {
            let _ = write!(
                t,
                "command UpdAny {{\n    attributes {{ priority: 1 }}\n    fields {{ {} }}\n{SEAL_OPEN}    policy {{ finish {{ update F[{}]=>{{{}}} to {{{}}} }} }}\n}}\n\n",
                self.all_fields_decl(false),
                this_keys.join(", "),
                bind_vals.join(", "),
                this_vals.join(", "),
            );
            let _ = write!(
                t,
                "command UpdFrom {{\n    attributes {{ priority: 1 }}\n    fields {{ {}{} }}\n{SEAL_OPEN}    policy {{ finish {{ update F[{}]=>{{{}}} to {{{}}} }} }}\n}}\n\n",
                self.all_fields_decl(false),
                old_decl.join(", "),
                this_keys.join(", "),
                old_vals.join(", "),
                this_vals.join(", "),
            );
        }
        let _ = write!(
            t,
            "command Nop {{\n    attributes {{ priority: 1 }}\n    fields {{ tag int }}\n{SEAL_OPEN}    policy {{ finish {{ emit Miss {{ tag: this.tag }} }} }}\n}}\n\n"
        );
        let key_decl: Vec<String> = s.keys.iter().enumerate().map(|(i, t)| format!("{} {}", key_name(i), ty_text(*t))).collect();
        let _ = write!(
            t,
            "command Delete {{\n    attributes {{ priority: 1 }}\n    fields {{ {} }}\n{SEAL_OPEN}    policy {{ finish {{ delete F[{}] }} }}\n}}\n\n",
            key_decl.join(", "),
            this_keys.join(", "),
        );
        let row: Vec<String> = std::iter::once("tag: this.tag".to_string())
            .chain((0..s.keys.len()).map(|i| format!("{0}: this.{0}", key_name(i))))
            .chain((0..s.vals.len()).map(|i| format!("{0}: this.{0}", val_name(i))))
            .collect();
        let _ = write!(
            t,
            "command Visit {{\n    attributes {{ priority: 1 }}\n    fields {{ {} }}\n{SEAL_OPEN}    policy {{ finish {{ emit Row {{ {} }} }} }}\n}}\n\n",
            self.all_fields_decl(true),
            row.join(", "),
        );
        t
    }

    /// `F[k0: <e>, k1: ?]=>{v0: <e>, v1: ?}`; `e(i, is_key)` supplies the expression of a given field.
    fn fact_literal(&self, plen: usize, vmask: u8, omit_vals: bool, mut e: impl FnMut(bool, usize) -> String) -> String {
        let s = self.schema;
        let keys: Vec<String> = (0..s.keys.len()).map(|i| if i < plen { format!("{}: {}", key_name(i), e(true, i)) } else { format!("{}: ?", key_name(i)) }).collect();
        let any_val = (0..s.vals.len()).any(|i| vmask & (1 << i) != 0);
        if !any_val && omit_vals {
            return format!("F[{}]", keys.join(", "));
        }
        let vals: Vec<String> = (0..s.vals.len()).map(|i| if vmask & (1 << i) != 0 { format!("{}: {}", val_name(i), e(false, i)) } else { format!("{}: ?", val_name(i)) }).collect();
        format!("F[{}]=>{{{}}}", keys.join(", "), vals.join(", "))
    }
}

fn matches(key: &Key, val: &[MV], qkey: &[MV], plen: usize, qval: &[MV], vmask: u8) -> (bool, bool) {
    let prefix = key[..plen] == qkey[..plen];
    let vals_ok = (0..val.len()).all(|i| vmask & (1 << i) == 0 || val[i] == qval[i]);
    (prefix, prefix && vals_ok)
}

struct Plan {
    text: String,
    batches: Vec<Batch>,
    nontrivial: bool,
    labels: Vec<String>,
}

fn plan(case: &Case) -> Plan {
    let s = &case.schema;
    let (nk, nv) = (s.keys.len(), s.vals.len());
    let mut g = Gen {
        schema: s,
        literals: case.literals,
        commands: String::new(),
        actions: String::new(),
        next_tag: 1,
        next_q: 0,
    };
    let mut model: Model = Model::new();
    let mut batches = Vec::new();
    let mut nontrivial = false;
    let mut labels: Vec<String> = Vec::new();

    for (bi, ops) in case.batches.iter().enumerate() {
        let mut at = ActionText { params: Vec::new(), body: String::new() };
        let mut local = model.clone();
        let mut effects: Vec<OpExp> = Vec::new();
        let mut expect_ok = true;
        let mut published_any = false;
        for op in ops {
            if !expect_ok {
                break;
            }
            match op {
                Op::Create { key, val, like } => {
                    let mut k: Key = key.iter().zip(&s.keys).map(|(a, t)| mv(*t, *a)).collect();
                    if let (Some((which, n)), false) = (like, local.is_empty()) {
                        let src = local.keys().nth(vcommon::idx(*which, local.len())).unwrap();
                        let n = usize::from(*n).min(nk.saturating_sub(1));
                        k[..n].clone_from_slice(&src[..n]);
                    }
                    let v: Vec<MV> = val.iter().zip(&s.vals).map(|(a, t)| mv(*t, *a)).collect();
                    let cmd = if local.contains_key(&k) {
                        if nv == 0 {
                            continue; // nothing to update on a value-less fact
                        }
                        "UpdAny"
                    } else {
                        "Create"
                    };
                    let mut fields = Vec::new();
                    for i in 0..nk {
                        fields.push(format!("{}: {}", key_name(i), at.expr(s.keys[i], &k[i], g.literals)));
                    }
                    for i in 0..nv {
                        fields.push(format!("{}: {}", val_name(i), at.expr(s.vals[i], &v[i], g.literals)));
                    }
                    let _ = writeln!(at.body, "    publish {cmd} {{ {} }}", fields.join(", "));
                    local.insert(k, v);
                    published_any = true;
                }
                Op::Update { pick: p, val, from } => {
                    if local.is_empty() || nv == 0 {
                        continue;
                    }
                    let (k, old) = local.iter().nth(vcommon::idx(*p, local.len())).map(|(k, v)| (k.clone(), v.clone())).unwrap();
                    let v: Vec<MV> = val.iter().zip(&s.vals).map(|(a, t)| mv(*t, *a)).collect();
                    let mut fields = Vec::new();
                    for i in 0..nk {
                        fields.push(format!("{}: {}", key_name(i), at.expr(s.keys[i], &k[i], g.literals)));
                    }
                    for i in 0..nv {
                        fields.push(format!("{}: {}", val_name(i), at.expr(s.vals[i], &v[i], g.literals)));
                    }
                    let mut from_mode = *from;
                    let mut claimed = old.clone();
                    if from_mode == 2 {
                        // claim other current values: flip the first field to something different
                        claimed[0] = other_value(s.vals[0], &old[0]);
                    }
                    if from_mode == 0 {
                        let _ = writeln!(at.body, "    publish UpdAny {{ {} }}", fields.join(", "));
                    } else {
                        for i in 0..nv {
                            fields.push(format!("o{i}: {}", at.expr(s.vals[i], &claimed[i], g.literals)));
                        }
                        let _ = writeln!(at.body, "    publish UpdFrom {{ {} }}", fields.join(", "));
                    }
                    published_any = true;
                    if from_mode == 2 {
                        expect_ok = false;
                        labels.push("update_with_wrong_current_values".into());
                        from_mode = 2;
                    } else {
                        local.insert(k, v);
                        labels.push("update".into());
                    }
                    let _ = from_mode;
                }
                Op::Delete { pick: p } => {
                    if local.is_empty() {
                        continue;
                    }
                    let k = local.keys().nth(vcommon::idx(*p, local.len())).cloned().unwrap();
                    let mut fields = Vec::new();
                    for i in 0..nk {
                        fields.push(format!("{}: {}", key_name(i), at.expr(s.keys[i], &k[i], g.literals)));
                    }
                    let _ = writeln!(at.body, "    publish Delete {{ {} }}", fields.join(", "));
                    local.remove(&k);
                    published_any = true;
                    labels.push("delete".into());
                }
                Op::Query { kind, hit, key, val, plen, vmask, limit, omit_vals } => {
                    let (mut qk, mut qv): (Key, Vec<MV>) = (
                        key.iter().zip(&s.keys).map(|(a, t)| mv(*t, *a)).collect(),
                        val.iter().zip(&s.vals).map(|(a, t)| mv(*t, *a)).collect(),
                    );
                    if let (Some(h), false) = (hit, local.is_empty()) {
                        let (k, v) = local.iter().nth(vcommon::idx(*h, local.len())).unwrap();
                        qk = k.clone();
                        // keep a generated value in one position now and then so value filters also miss
                        for i in 0..nv {
                            if !(val[i] < 40) {
                                qv[i] = v[i].clone();
                            }
                        }
                    }
                    let plen = usize::from(*plen).min(nk);
                    let vmask = *vmask & ((1u8 << nv) - 1);
                    let limit = i64::from(*limit);
                    let tag = g.next_tag;
                    g.next_tag += 1;
                    // model answer
                    let mut prefix_n = 0;
                    let mut hits: Vec<(&Key, &Vec<MV>)> = Vec::new();
                    for (k, v) in &local {
                        let (p, m) = matches(k, v, &qk, plen, &qv, vmask);
                        if p {
                            prefix_n += 1;
                        }
                        if m {
                            hits.push((k, v));
                        }
                    }
                    let n = hits.len() as i64;
                    let kind = *kind % 7;
                    if prefix_n >= 2 && (plen < nk || (vmask != (1u8 << nv) - 1 && nv > 0)) {
                        nontrivial = true;
                    }
                    labels.push(format!("{}:{}", KINDS[usize::from(kind)], match n { 0 => "0", 1 => "1", _ => "many" }));
                    if (hits.len() as i64) < prefix_n {
                        labels.push("value_filter_excluded_a_fact".into());
                    }
                    let row = |k: &Key, v: &Vec<MV>| Exp::Row { tag, key: k.clone(), val: v.clone() };
                    let mut unfiltered = None;
                    let want = match kind {
                        0 => match hits.first() {
                            Some((k, v)) => vec![row(k, v)],
                            None => vec![Exp::Miss { tag }],
                        },
                        1 => vec![Exp::Flag { tag, b: n > 0 }],
                        2 => vec![Exp::Cnt { tag, n: n.min(limit) }],
                        3 => vec![Exp::Flag { tag, b: n >= limit }],
                        4 => vec![Exp::Flag { tag, b: n <= limit }],
                        5 => vec![Exp::Flag { tag, b: n == limit }],
                        _ => {
                            if hits.len() >= 2 {
                                labels.push("map_visited_2plus".into());
                            }
                            if (hits.len() as i64) < prefix_n {
                                unfiltered = Some(local.iter().filter(|(k, v)| matches(k, v, &qk, plen, &qv, vmask).0).map(|(k, v)| row(k, v)).collect());
                            }
                            hits.iter().map(|(k, v)| row(k, v)).collect()
                        }
                    };
                    let visits_any = !want.is_empty();
                    effects.push(OpExp { tag, kind, want, unfiltered });
                    // text
                    if kind == 6 {
                        let lits = g.literals;
                        let fl = {
                            let at_ref = &mut at;
                            g.fact_literal(plen, vmask, *omit_vals, |is_key, i| if is_key { at_ref.expr(s.keys[i], &qk[i], lits) } else { at_ref.expr(s.vals[i], &qv[i], lits) })
                        };
                        let row: Vec<String> = std::iter::once(format!("tag: {tag}"))
                            .chain((0..nk).map(|i| format!("{0}: f.{0}", key_name(i))))
                            .chain((0..nv).map(|i| format!("{0}: f.{0}", val_name(i))))
                            .collect();
                        let _ = writeln!(at.body, "    map {fl} as f {{\n        publish Visit {{ {} }}\n    }}", row.join(", "));
                        if visits_any {
                            published_any = true;
                        }
                    } else {
                        let q = g.next_q;
                        g.next_q += 1;
                        // command Q<q>: given fields become command fields (or literals)
                        let mut decl = vec!["tag int".to_string()];
                        let mut pubf = vec![format!("tag: {tag}")];
                        let lits = g.literals;
                        let fl = {
                            let at_ref = &mut at;
                            let decl_ref = &mut decl;
                            let pubf_ref = &mut pubf;
                            g.fact_literal(plen, vmask, *omit_vals, |is_key, i| {
                                let (t, v) = if is_key { (s.keys[i], &qk[i]) } else { (s.vals[i], &qv[i]) };
                                if lits {
                                    if let Some(l) = literal(v) {
                                        return l;
                                    }
                                }
                                let fname = format!("{}{i}", if is_key { "a" } else { "w" });
                                decl_ref.push(format!("{fname} {}", ty_text(t)));
                                pubf_ref.push(format!("{fname}: {}", at_ref.expr(t, v, false)));
                                format!("this.{fname}")
                            })
                        };
                        let body = match kind {
                            0 => {
                                let row: Vec<String> = std::iter::once("tag: this.tag".to_string())
                                    .chain((0..nk).map(|i| format!("{0}: f.{0}", key_name(i))))
                                    .chain((0..nv).map(|i| format!("{0}: f.{0}", val_name(i))))
                                    .collect();
                                format!(
                                    "        let r = query {fl}\n        match r {{\n            Some(f) => {{ finish {{ emit Row {{ {} }} }} }}\n            None => {{ finish {{ emit Miss {{ tag: this.tag }} }} }}\n        }}\n",
                                    row.join(", ")
                                )
                            }
                            1 => format!("        let b = exists {fl}\n        finish {{ emit Flag {{ tag: this.tag, b: b }} }}\n"),
                            2 => format!("        let n = count_up_to {limit} {fl}\n        finish {{ emit Cnt {{ tag: this.tag, n: n }} }}\n"),
                            3 => format!("        let b = at_least {limit} {fl}\n        finish {{ emit Flag {{ tag: this.tag, b: b }} }}\n"),
                            4 => format!("        let b = at_most {limit} {fl}\n        finish {{ emit Flag {{ tag: this.tag, b: b }} }}\n"),
                            _ => format!("        let b = exactly {limit} {fl}\n        finish {{ emit Flag {{ tag: this.tag, b: b }} }}\n"),
                        };
                        let _ = write!(
                            g.commands,
                            "command Q{q} {{\n    attributes {{ priority: 1 }}\n    fields {{ {} }}\n{SEAL_OPEN}    policy {{\n{body}    }}\n}}\n\n",
                            decl.join(", ")
                        );
                        let _ = writeln!(at.body, "    publish Q{q} {{ {} }}", pubf.join(", "));
                        published_any = true;
                    }
                }
            }
        }
        if at.body.is_empty() {
            continue;
        }
        if !published_any && expect_ok {
            // an action that publishes nothing fails with EmptyPerspective (C07's business): make sure
            // the model's version of this action publishes at least one command
            let tag = g.next_tag;
            g.next_tag += 1;
            let _ = writeln!(at.body, "    publish Nop {{ tag: {tag} }}");
            effects.push(OpExp { tag, kind: 0, want: vec![Exp::Miss { tag }], unfiltered: None });
        }
        let params: Vec<String> = at.params.iter().enumerate().map(|(i, (t, _))| format!("p{i} {}", ty_text(*t))).collect();
        let name = format!("b{bi}");
        let _ = write!(g.actions, "action {name}({}) {{\n{}}}\n\n", params.join(", "), at.body);
        if expect_ok {
            model = local;
        } else {
            effects.clear();
        }
        batches.push(Batch {
            action: name,
            args: at.params.into_iter().map(|p| p.1).collect(),
            expect_ok,
            effects,
            model_after: model.clone(),
        });
    }
    let text = format!("{}{}{}", g.header(), g.commands, g.actions);
    Plan { text, batches, nontrivial, labels }
}

fn other_value(t: Ty, v: &MV) -> MV {
    match (t, v) {
        (Ty::Int, MV::Int(i)) => MV::Int(if *i == 7 { 8 } else { 7 }),
        (Ty::Bool, MV::Bool(b)) => MV::Bool(!b),
        (Ty::Str, MV::Str(s)) => MV::Str(if s == "q" { "r".into() } else { "q".into() }),
        (Ty::Id, MV::Id(b)) => {
            let mut c = *b;
            c[5] ^= 0x10;
            MV::Id(c)
        }
        (Ty::Enum, MV::Enum(i)) => MV::Enum((*i + 1) % 4),
        _ => unreachable!("type/value mismatch"),
    }
}

// ---------------------------------------------------------------------------------------------
// decoding stored facts (independent decoder written from the documented key layout)

fn decode_key_part(part: &[u8], want_name: &str, t: Ty) -> Result<MV, String> {
    if part.len() < 8 {
        return Err("key part shorter than its length prefix".into());
    }
    let n = u64::from_be_bytes(part[..8].try_into().unwrap()) as usize;
    let rest = &part[8..];
    if rest.len() < n + 1 {
        return Err("key part truncated".into());
    }
    if &rest[..n] != want_name.as_bytes() {
        return Err(format!("key name {:?} differs from {want_name}", String::from_utf8_lossy(&rest[..n])));
    }
    let tag = rest[n];
    let body = &rest[n + 1..];
    let int = |b: &[u8]| -> Result<i64, String> {
        let a: [u8; 8] = b.try_into().map_err(|_| "int body is not 8 bytes".to_string())?;
        Ok((u64::from_be_bytes(a) ^ (1 << 63)) as i64)
    };
    match (t, tag) {
        (Ty::Int, 0) => Ok(MV::Int(int(body)?)),
        (Ty::Bool, 1) => match body {
            [0] => Ok(MV::Bool(false)),
            [1] => Ok(MV::Bool(true)),
            _ => Err("bad bool body".into()),
        },
        (Ty::Str, 2) => Ok(MV::Str(String::from_utf8(body.to_vec()).map_err(|_| "string key not utf8".to_string())?)),
        (Ty::Id, 3) => Ok(MV::Id(body.try_into().map_err(|_| "id body is not 32 bytes".to_string())?)),
        (Ty::Enum, 4) => {
            if body.len() < 8 || &body[8..] != b"Color" {
                return Err("bad enum body".into());
            }
            Ok(MV::Enum(int(&body[..8])?))
        }
        _ => Err(format!("key type tag {tag} does not fit {t:?}")),
    }
}

fn decode_scan(rows: &rt::FactRows, s: &Schema) -> Result<Vec<(Key, Vec<MV>)>, String> {
    let mut out = Vec::new();
    for (name, key, val) in rows {
        if name != "F" || key.len() != s.keys.len() {
            return Err(format!("unexpected fact {name} with {} key parts", key.len()));
        }
        let k: Key = key.iter().enumerate().map(|(i, p)| decode_key_part(p, &key_name(i), s.keys[i])).collect::<Result<_, _>>()?;
        let vals: Vec<FactValue> = postcard::from_bytes(val).map_err(|e| format!("value decode: {e}"))?;
        if vals.len() != s.vals.len() {
            return Err(format!("fact has {} value fields, schema {}", vals.len(), s.vals.len()));
        }
        let mut v = Vec::new();
        for (i, _) in s.vals.iter().enumerate() {
            let Some(fv) = vals.iter().find(|fv| fv.identifier.as_str() == val_name(i)) else {
                return Err(format!("value field v{i} missing"));
            };
            v.push(from_value(&fv.value).ok_or_else(|| format!("value field v{i} has an unexpected type: {:?}", fv.value))?);
        }
        out.push((k, v));
    }
    Ok(out)
}

fn decode_effect(e: &aranya_runtime::VmEffect, s: &Schema) -> Result<Exp, String> {
    let f: BTreeMap<&str, &Value> = e.fields.iter().map(|kv| (kv.key().as_str(), kv.value())).collect();
    let int = |n: &str| match f.get(n) {
        Some(Value::Int(i)) => Ok(*i),
        o => Err(format!("effect field {n} = {o:?}")),
    };
    let tag = int("tag")?;
    match e.name.as_str() {
        "Miss" => Ok(Exp::Miss { tag }),
        "Cnt" => Ok(Exp::Cnt { tag, n: int("n")? }),
        "Flag" => match f.get("b") {
            Some(Value::Bool(b)) => Ok(Exp::Flag { tag, b: *b }),
            o => Err(format!("Flag.b = {o:?}")),
        },
        "Row" => {
            let mut key = Vec::new();
            let mut val = Vec::new();
            for i in 0..s.keys.len() {
                let v = f.get(key_name(i).as_str()).and_then(|v| from_value(v)).ok_or_else(|| format!("Row.k{i} missing or mistyped"))?;
                key.push(v);
            }
            for i in 0..s.vals.len() {
                let v = f.get(val_name(i).as_str()).and_then(|v| from_value(v)).ok_or_else(|| format!("Row.v{i} missing or mistyped"))?;
                val.push(v);
            }
            if f.len() != 1 + s.keys.len() + s.vals.len() {
                return Err("Row has extra fields".into());
            }
            Ok(Exp::Row { tag, key, val })
        }
        n => Err(format!("unknown effect {n}")),
    }
}

fn f(sig: &str, detail: String) -> Failure {
    Failure::new(sig, detail)
}

pub fn check_case(case: &Case, info: &mut CaseInfo) -> CheckResult {
    let p = plan(case);
    if p.batches.is_empty() {
        return Ok(());
    }
    let m = match rt::compile(&p.text, &[TestFfiEnvelope::SCHEMA]) {
        Ok(m) => m,
        Err(e) => fail!("generated policy does not compile", "{e}\n--- policy ---\n{}", p.text),
    };
    let ffis: Vec<Box<dyn FfiCallable<Eng> + Send + 'static>> = vec![Box::from(TestFfiEnvelope { device: DeviceId::from_bytes([9; 32]) })];
    let policy = VmPolicy::new(m, rt::engine(1), ffis).map_err(|e| f("VmPolicy::new failed", e.to_string()))?;
    let mut c: Client<Eng> = Client::new(Store { policy }, MemStorageProvider::default());
    let mut bufs: Box<Buffers> = Box::new(Buffers::new());
    let mut sink = RecSink::new();
    let g = c
        .new_graph(&[0u8], VmAction { name: ident!("init"), args: Cow::Owned(vec![Value::Int(1)]) }, &mut sink)
        .map_err(|e| f("harness: new_graph failed", e.to_string()))?;
    let s = &case.schema;
    let mut before: Vec<(Key, Vec<MV>)> = Vec::new();
    let mut deferred: Option<Failure> = None;
    for b in &p.batches {
        let mut sink = RecSink::new();
        let name: Identifier = b.action.parse().expect("identifier");
        let res = c.action(g, &mut sink, VmAction { name, args: Cow::Owned(b.args.clone()) }, &mut bufs, MemSpill::new);
        let ctx = || format!("action {} args={:?}\n--- policy ---\n{}", b.action, b.args, p.text);
        let (committed, _) = sink.committed();
        let scan = {
            let st = aranya_runtime::StorageProvider::get_storage(c.provider(), g).map_err(|e| f("harness: get_storage", e.to_string()))?;
            rt::scan_facts(&*st, &["F"]).map_err(|e| f("fact scan failed", e))?
        };
        let stored = decode_scan(&scan, s).map_err(|e| f("stored facts do not decode", format!("{e}; {}", ctx())))?;
        match (&res, b.expect_ok) {
            (Ok(()), true) => {}
            (Err(e), true) => fail!("action failed although every operation in it is valid", "error={e}; model before={before:?}; {}", ctx()),
            (Ok(()), false) => fail!("update with non-matching current values succeeded", "stored after={stored:?}; {}", ctx()),
            (Err(_), false) => {
                ensure!(committed.is_empty(), "failed action committed effects", "{}", ctx());
            }
        }
        // effects == model answers, in publish order; each operation owns the run of effects with its tag
        let mut got = Vec::new();
        for e in &committed {
            got.push(decode_effect(e, s).map_err(|m| f("effect does not decode", format!("{m}: {e:?}; {}", ctx())))?);
        }
        let tag_of = |e: &Exp| match e {
            Exp::Row { tag, .. } | Exp::Miss { tag } | Exp::Cnt { tag, .. } | Exp::Flag { tag, .. } => *tag,
        };
        let mut pos = 0;
        for oe in &b.effects {
            let start = pos;
            while pos < got.len() && tag_of(&got[pos]) == oe.tag {
                pos += 1;
            }
            let run = &got[start..pos];
            if run == oe.want.as_slice() {
                continue;
            }
            let detail = format!("operation tag={} kind={}: got={run:?}\nwant={:?}\nmodel before the action={before:?}\nall got={got:?}\n{}", oe.tag, KINDS[usize::from(oe.kind)], oe.want, ctx());
            if oe.kind == 6 {
                if oe.unfiltered.as_deref() == Some(run) {
                    // known finding: keep checking the rest of the case, report at the end
                    if deferred.is_none() {
                        deferred = Some(Failure::new("map ignores the given value fields: visits every fact under the key prefix", detail));
                    }
                    continue;
                }
                let sorted_same = {
                    let (mut a, mut w) = (run.to_vec(), oe.want.clone());
                    let keyf = |e: &Exp| format!("{e:?}");
                    a.sort_by_key(keyf);
                    w.sort_by_key(keyf);
                    a == w
                };
                let sig = if sorted_same {
                    "map visits the right facts in the wrong order"
                } else if run.len() > oe.want.len() {
                    "map visited a fact the model does not visit"
                } else {
                    "map did not visit the facts the model visits"
                };
                return Err(Failure::new(sig, detail));
            }
            let sig = match oe.kind {
                0 => match (run.first(), oe.want.first()) {
                    (Some(Exp::Row { .. }), Some(Exp::Row { .. })) => "query returned a different fact than the model",
                    (Some(Exp::Row { .. }), Some(Exp::Miss { .. })) => "query found a fact where the model finds none",
                    (Some(Exp::Miss { .. }), Some(Exp::Row { .. })) => "query found nothing where the model finds a fact",
                    _ => "query produced unexpected effects",
                },
                1 => "exists differs from the model",
                2 => "count_up_to differs from the model",
                3 => "at_least differs from the model",
                4 => "at_most differs from the model",
                _ => "exactly differs from the model",
            };
            return Err(Failure::new(sig, detail));
        }
        ensure!(pos == got.len(), "action committed effects no operation accounts for", "extra={:?}; {}", &got[pos..], ctx());
        // stored facts == model, in key order
        let want: Vec<(Key, Vec<MV>)> = b.model_after.iter().map(|(k, v)| (k.clone(), v.clone())).collect();
        if stored != want {
            let mut a = stored.clone();
            a.sort();
            let sig = if a == want { "stored facts are not in key order" } else { "stored facts differ from the model after create/update/delete" };
            fail!(sig, "stored={stored:?}\nwant={want:?}\n{}", ctx());
        }
        before = want;
    }
    if p.nontrivial {
        info.nontrivial();
    }
    let mut ls = p.labels;
    ls.sort();
    ls.dedup();
    for l in ls {
        info.label(l);
    }
    info.label(format!("schema:{}keys/{}vals", s.keys.len(), s.vals.len()));
    let mut tys: Vec<String> = s.keys.iter().map(|t| format!("keytype:{t:?}")).collect();
    tys.sort();
    tys.dedup();
    for t in tys {
        info.label(t);
    }
    if case.literals {
        info.label("values_as_literals");
    }
    match deferred {
        Some(fl) => Err(fl),
        None => Ok(()),
    }
}

pub fn run(ctx: &Ctx) -> ! {
    let mut rep = Report::new(ctx, "exploration");
    rep.assume("only in-domain writes are generated: create of an absent key, update/delete of a present key; plus update naming non-matching current values, which must fail (aranya-policy-vm tests/vm.rs test_invalid_update) and leave facts unchanged");
    rep.assume("values come from small per-type alphabets (ints incl. i64::MIN/-1/0/i64::MAX, strings incl. empty / prefixes of each other / non-ASCII, ids differing in first or last byte, 4 enum variants) so equal prefixes and collisions are common");
    rep.assume("queries run inside command policy blocks (results surfaced as effects) and `map` inside actions (one published command per visited fact); session (ephemeral) perspectives are not exercised");
    rep.assume("key order of the statement = order of the typed key tuple: int numeric, false<true, strings and ids bytewise, enum by ordinal");
    let n = ctx.pick(12_000, 400_000);
    rep.explore(
        "generated_schema",
        "generated schema (1-3 key fields over int/bool/string/id/enum, 0-2 value fields), policy text generated from schema and ops, \
         1-6 actions of 1-5 operations each (create/update/delete/query/exists/count_up_to/at_least/at_most/exactly/map) on one client; \
         each action is one segment; after every action: committed effects == model answers in order, storage fact scan == model in key order; \
         non-trivial = a query whose key prefix matches >=2 stored facts and which has a bind in the key or a bound value field",
        || case(1, 6, 5),
        n,
        check_case,
    );
    rep.explore(
        "long_history",
        "same, 12-40 actions of 1-3 operations (fact-index chains deeper than MAX_FACT_INDEX_DEPTH = 16, so compaction happens between queries)",
        || case(12, 40, 3),
        n / 10,
        check_case,
    );
    rep.finish()
}
