//! C35: a replica whose policy verifies signatures accepts only authentic commands.
use std::borrow::Cow;

use aranya_crypto::{DeviceId, IdentityKey, KeyStoreExt as _, SigningKey, keystore::memstore::MemStore};
use aranya_crypto_ffi::Ffi as CryptoFfi;
use aranya_device_ffi::FfiDevice as DeviceFfi;
use aranya_envelope_ffi::Ffi as EnvelopeFfi;
use aranya_idam_ffi::Ffi as IdamFfi;
use aranya_perspective_ffi::FfiPerspective as PerspectiveFfi;
use aranya_policy_module::TypeKind;
use aranya_policy_vm::{Identifier, Machine, Value, ffi::{FfiModule as _, ModuleSchema}, ident};
use aranya_runtime::{
    Address, CmdId, FfiCallable, GraphId, MaxCut, MemSpill, Prior, Priority, StorageError, StorageProvider as _, VmAction,
    VmPolicy, VmProtocolData, storage::linear::testing::MemStorageProvider,
};
use proptest::prelude::*;
use serde::{Deserialize, Serialize};
use vcommon::{CaseInfo, CheckResult, Ctx, Failure, Report, ensure, fail};

use crate::rt::{self, Buffers, Client, Eng, OwnedCmd, RecSink, Snapshot, Store};

pub const POLICY: &str = r#"
use idam
use perspective
use device
use crypto
use envelope

fact Stuff[a int]=>{x int}
effect StuffHappened { a int, x int }
effect Noted { k int, s string }

enum Color { Red, Green, Blue }
struct Inner { n int, t string }

fact DeviceSignKey[device_id id]=>{key_id id, key bytes}
fact DeviceIdentKey[device_id id]=>{key bytes}

function seal_basic_command(payload bytes) struct Envelope {
    let parent_id = perspective::head_id()
    let author_id = device::current_device_id()
    let author_sign_id = match query DeviceSignKey[device_id: author_id]=>{key_id: ?, key: ?} {
        Some(pk) => Some(pk.key_id)
        None => None
    }
    let signed = crypto::sign(author_sign_id, payload)
    return envelope::new(parent_id, author_id, signed.command_id, signed.signature)
}

function open_basic_command(payload bytes, envelope_input struct Envelope) unit {
    let author_id = envelope::author_id(envelope_input)
    let author_sign_pk = match query DeviceSignKey[device_id: author_id]=>{key_id: ?, key: ?} {
        Some(pk) => Some(pk.key)
        None => None
    }
    let parent_id = envelope::parent_id(envelope_input)
    return crypto::verify(
        author_sign_pk,
        parent_id,
        payload,
        envelope::command_id(envelope_input),
        envelope::signature(envelope_input),
    )
}

action init(nonce int, ident_pk bytes, sign_pk bytes) {
    publish Init { nonce: nonce, ident_pk: ident_pk, sign_pk: sign_pk }
}

command Init {
    attributes { init: true }
    fields { nonce int, ident_pk bytes, sign_pk bytes }
    seal {
        let parent_id = perspective::head_id()
        let author_sign_sk_id = idam::derive_sign_key_id(this.sign_pk)
        let signed = crypto::sign(Some(author_sign_sk_id), payload)
        let author_id = device::current_device_id()
        return envelope::new(parent_id, author_id, signed.command_id, signed.signature)
    }
    open {
        let parent_id = envelope::parent_id(envelope)
        return crypto::verify(
            Some(this.sign_pk),
            parent_id,
            payload,
            envelope::command_id(envelope),
            envelope::signature(envelope),
        )
    }
    policy {
        // bind the envelope's author to the (signed) identity key, as AddDeviceKeys does
        let author = envelope::author_id(envelope)
        let device_id = idam::derive_device_id(this.ident_pk)
        check author == device_id else recall reject()
        finish {}
    }
    recall reject() { finish {} }
}

action add_device_keys(ident_pk bytes, sign_pk bytes) {
    publish AddDeviceKeys { ident_pk: ident_pk, sign_pk: sign_pk }
}

command AddDeviceKeys {
    attributes { priority: 0 }
    fields { ident_pk bytes, sign_pk bytes }
    seal {
        let parent_id = perspective::head_id()
        let author_sign_sk_id = idam::derive_sign_key_id(this.sign_pk)
        let signed = crypto::sign(Some(author_sign_sk_id), payload)
        let author_id = device::current_device_id()
        return envelope::new(parent_id, author_id, signed.command_id, signed.signature)
    }
    open {
        let parent_id = envelope::parent_id(envelope)
        return crypto::verify(
            Some(this.sign_pk),
            parent_id,
            payload,
            envelope::command_id(envelope),
            envelope::signature(envelope),
        )
    }
    policy {
        let author = envelope::author_id(envelope)
        let device_id = idam::derive_device_id(this.ident_pk)
        check author == device_id else recall reject()
        check !exists DeviceSignKey[device_id: author]=>{key_id: ?, key: ?} else recall reject()
        let sign_pk_id = idam::derive_sign_key_id(this.sign_pk)
        finish {
            create DeviceSignKey[device_id: author]=>{key_id: sign_pk_id, key: this.sign_pk}
            create DeviceIdentKey[device_id: author]=>{key: this.ident_pk}
        }
    }
    recall reject() { finish {} }
}

action put(k int, v int) {
    publish Put { k: k, v: v }
}

command Put {
    attributes { priority: 1 }
    fields { k int, v int }
    seal { return seal_basic_command(payload) }
    open { return open_basic_command(payload, envelope) }
    policy {
        let cur = query Stuff[a: this.k]=>{x: ?}
        match cur {
            Some(s) => {
                finish {
                    update Stuff[a: this.k]=>{x: s.x} to {x: this.v}
                    emit StuffHappened { a: this.k, x: this.v }
                }
            }
            None => {
                finish {
                    create Stuff[a: this.k]=>{x: this.v}
                    emit StuffHappened { a: this.k, x: this.v }
                }
            }
        }
    }
}

action set2(k int, v int) {
    publish Set2 { k: k, v: v }
}

// Same field layout as Put under another name and priority: a renamed Put payload deserializes.
command Set2 {
    attributes { priority: 1 }
    fields { k int, v int }
    seal { return seal_basic_command(payload) }
    open { return open_basic_command(payload, envelope) }
    policy {
        let cur = query Stuff[a: this.k]=>{x: ?}
        match cur {
            Some(s) => {
                finish {
                    update Stuff[a: this.k]=>{x: s.x} to {x: this.v}
                    emit StuffHappened { a: this.k, x: this.v }
                }
            }
            None => {
                finish {
                    create Stuff[a: this.k]=>{x: this.v}
                    emit StuffHappened { a: this.k, x: this.v }
                }
            }
        }
    }
}

action two(k int, v int) {
    publish Put { k: k, v: v }
    publish Set2 { k: k, v: v }
}

action note(k int, s string, o option[int], c enum Color, b bytes, n int, t string) {
    publish Note { k: k, s: s, o: o, c: c, b: b, i: Inner { n: n, t: t } }
}

// A payload with every kind of field: ints of any size, text / bytes (length prefixes of 1-2 bytes), option,
// enum, nested struct.
command Note {
    attributes { priority: 1 }
    fields { k int, s string, o option[int], c enum Color, b bytes, i struct Inner }
    seal { return seal_basic_command(payload) }
    open { return open_basic_command(payload, envelope) }
    policy {
        finish {
            emit Noted { k: this.k, s: this.s }
        }
    }
}
"#;

pub const FACT_NAMES: &[&str] = &["Stuff", "DeviceSignKey", "DeviceIdentKey"];

#[derive(Clone, Debug, Serialize, Deserialize)]
pub struct Step {
    /// false = device A (owner), true = device C
    pub dev_c: bool,
    /// 0 put, 1 set2, 2 two (two commands in one action), 3 note (field values derived from k, v, extra)
    pub cmd: u8,
    pub k: u8,
    pub v: i8,
    #[serde(default)]
    pub extra: u16,
    /// exchange all commands between A and C after this step
    pub sync_after: bool,
}

#[derive(Clone, Debug, Serialize, Deserialize)]
pub struct MutParam {
    pub pos: u16,
    pub bit: u8,
    pub pick: u16,
}

#[derive(Clone, Debug, Serialize, Deserialize)]
pub struct Case {
    pub seed: u32,
    pub steps: Vec<Step>,
    /// parameters of the mutations; command i uses params[(i + kind) % len] for mutation kind `kind`
    pub params: Vec<MutParam>,
    /// one mutation of a field the statement does not name, tried on a second replica:
    /// (which command, which of the 5 uncovered kinds)
    pub probe: (u16, u8),
}

fn case(max_steps: usize) -> impl Strategy<Value = Case> {
    (
        any::<u32>(),
        prop::collection::vec(
            (any::<bool>(), prop_oneof![3 => Just(0u8), 2 => Just(1u8), 1 => Just(2u8), 2 => Just(3u8)], 0u8..3, -3i8..4, any::<u16>(), prop_oneof![2 => Just(false), 1 => Just(true)])
                .prop_map(|(dev_c, cmd, k, v, extra, sync_after)| Step { dev_c, cmd, k, v, extra, sync_after }),
            1..=max_steps,
        ),
        prop::collection::vec((any::<u16>(), 0u8..8, any::<u16>()).prop_map(|(pos, bit, pick)| MutParam { pos, bit, pick }), 7),
        (any::<u16>(), 0u8..5),
    )
        .prop_map(|(seed, steps, params, probe)| Case { seed, steps, params, probe })
}

// ---------------------------------------------------------------------------------------------
// devices

pub struct Device {
    pub client: Client<Eng>,
    pub id: DeviceId,
    pub ident_pk: Vec<u8>,
    pub sign_pk: Vec<u8>,
}

pub fn schemas() -> Vec<ModuleSchema<'static>> {
    vec![DeviceFfi::SCHEMA, EnvelopeFfi::SCHEMA, PerspectiveFfi::SCHEMA, CryptoFfi::<MemStore>::SCHEMA, IdamFfi::<MemStore>::SCHEMA]
}

pub fn machine() -> Machine {
    rt::compile(POLICY, &schemas()).unwrap_or_else(|e| {
        println!("INCONCLUSIVE C35 policy does not compile: {e}");
        std::process::exit(2);
    })
}

pub fn device(m: &Machine, seed: u64) -> Result<Device, String> {
    let eng = rt::engine(seed);
    let mut store = MemStore::new();
    let ik = IdentityKey::<<Eng as aranya_crypto::Engine>::CS>::new(&eng);
    let ident_pk = postcard::to_allocvec(&ik.public().map_err(|e| format!("ident public: {e}"))?).map_err(|e| e.to_string())?;
    let id = store.insert_key(&eng, ik).map_err(|e| format!("insert ident key: {e}"))?;
    let sk = SigningKey::<<Eng as aranya_crypto::Engine>::CS>::new(&eng);
    let sign_pk = postcard::to_allocvec(&sk.public().map_err(|e| format!("sign public: {e}"))?).map_err(|e| e.to_string())?;
    store.insert_key(&eng, sk).map_err(|e| format!("insert sign key: {e}"))?;
    let ffis: Vec<Box<dyn FfiCallable<Eng> + Send + 'static>> = vec![
        Box::from(DeviceFfi::new(id)),
        Box::from(EnvelopeFfi),
        Box::from(PerspectiveFfi),
        Box::from(CryptoFfi::new(store.clone())),
        Box::from(IdamFfi::new(store)),
    ];
    let policy = VmPolicy::new(m.clone(), eng, ffis).map_err(|e| format!("VmPolicy::new: {e}"))?;
    Ok(Device {
        client: Client::new(Store { policy }, MemStorageProvider::default()),
        id,
        ident_pk,
        sign_pk,
    })
}

/// Field values of a Note: ints with 1..10 byte encodings, text / bytes up to 299 bytes, both option states.
fn note_args(s: &Step) -> Vec<Value> {
    let e = i64::from(s.extra);
    let k = match s.extra % 4 {
        0 => i64::from(s.v),
        1 => e << 20,
        2 => i64::MIN + e,
        _ => -e * 1_000_000_007,
    };
    let text = |c: &str, n: usize| Value::String(c.repeat(n).parse().expect("text without NUL"));
    vec![
        Value::Int(k),
        text("s", usize::from(s.extra) % 200),
        if s.extra & 1 == 1 { Value::Option(Some(Box::new(Value::Int(e * 3)))) } else { Value::Option(None) },
        Value::Enum(ident!("Color"), e % 3),
        Value::Bytes(vec![s.k; usize::from(s.extra / 7) % 300]),
        Value::Int(e - 100),
        text("\u{e9}", usize::from(s.k)),
    ]
}

fn act(name: Identifier, args: Vec<Value>) -> VmAction<'static> {
    VmAction { name, args: Cow::Owned(args) }
}

fn f(sig: &str, detail: String) -> Failure {
    Failure::new(sig, detail)
}

// ---------------------------------------------------------------------------------------------
// mutations

#[derive(Clone, Copy, Debug, PartialEq, Eq)]
pub enum MutKind {
    PayloadByte,
    Name,
    Author,
    SigByte,
    Id,
    ParentId,
    RawByte,
    // not named by the statement: recorded as labels only
    ParentMaxCut,
    Priority,
    PolicyField,
    TrailingByte,
    /// a length prefix of the wire encoding (command name / payload / signature) padded; the signed content is untouched
    WireLenPrefix,
}

pub const COVERED: [MutKind; 7] = [MutKind::PayloadByte, MutKind::Name, MutKind::Author, MutKind::SigByte, MutKind::Id, MutKind::ParentId, MutKind::RawByte];
pub const UNCOVERED: [MutKind; 5] = [MutKind::ParentMaxCut, MutKind::Priority, MutKind::PolicyField, MutKind::TrailingByte, MutKind::WireLenPrefix];

fn reencode(author: DeviceId, kind: &Identifier, fields: &[u8], sig: &[u8]) -> Vec<u8> {
    postcard::to_allocvec(&VmProtocolData {
        author_id: author,
        kind: kind.clone(),
        serialized_fields: fields,
        signature: sig,
    })
    .expect("encode VmProtocolData")
}

fn flip(b: &mut [u8], p: &MutParam) -> bool {
    if b.is_empty() {
        return false;
    }
    let i = vcommon::idx(p.pos, b.len());
    b[i] ^= 1 << (p.bit & 7);
    true
}

fn flip_id(id: CmdId, p: &MutParam) -> CmdId {
    let mut b = *id.as_array();
    flip(&mut b, p);
    CmdId::from_bytes(b)
}

/// Applies one mutation; `None` when it does not apply to this command (e.g. parent of an init).
/// `others`: addresses of commands the receiving replica already holds; `devices`: other device ids.
pub fn mutate(orig: &OwnedCmd, kind: MutKind, p: &MutParam, others: &[Address], devices: &[DeviceId]) -> Option<(OwnedCmd, &'static str)> {
    let mut c = orig.clone();
    let data: VmProtocolData<'_> = postcard::from_bytes(&orig.bytes).ok()?;
    let (author, name, fields, sig) = (data.author_id, data.kind.clone(), data.serialized_fields.to_vec(), data.signature.to_vec());
    let what: &'static str;
    match kind {
        MutKind::PayloadByte => {
            let mut x = fields.clone();
            if !flip(&mut x, p) {
                return None;
            }
            c.bytes = reencode(author, &name, &x, &sig);
            what = "payload";
        }
        MutKind::Name => {
            let names = ["Put", "Set2", "AddDeviceKeys", "Init", "Nope", "Note"];
            let cand: Vec<&str> = names.iter().copied().filter(|n| *n != name.as_str()).collect();
            let n: Identifier = cand[vcommon::idx(p.pick, cand.len())].parse().ok()?;
            c.bytes = reencode(author, &n, &fields, &sig);
            what = "command name";
        }
        MutKind::Author => {
            let cand: Vec<DeviceId> = devices.iter().copied().filter(|d| *d != author).collect();
            let k = vcommon::idx(p.pick, cand.len() + 1);
            let a = if k < cand.len() {
                cand[k]
            } else {
                let mut b = *author.as_array();
                flip(&mut b, p);
                DeviceId::from_bytes(b)
            };
            c.bytes = reencode(a, &name, &fields, &sig);
            what = "author";
        }
        MutKind::SigByte => {
            let mut x = sig.clone();
            if !flip(&mut x, p) {
                return None;
            }
            c.bytes = reencode(author, &name, &fields, &x);
            what = "signature";
        }
        MutKind::Id => {
            c.id = flip_id(orig.id, p);
            what = "command id";
        }
        MutKind::ParentId => {
            let cur = match orig.parent {
                Prior::Single(a) => Some(a),
                Prior::None => None,
                Prior::Merge(..) => return None,
            };
            let cand: Vec<Address> = others.iter().copied().filter(|a| Some(a.id) != cur.map(|c| c.id)).collect();
            let k = vcommon::idx(p.pick, cand.len() + 1);
            c.parent = if k < cand.len() {
                Prior::Single(cand[k])
            } else {
                match cur {
                    Some(a) => Prior::Single(Address { id: flip_id(a.id, p), max_cut: a.max_cut }),
                    None => Prior::Single(Address { id: flip_id(orig.id, p), max_cut: MaxCut::new(0) }),
                }
            };
            what = "parent";
        }
        MutKind::RawByte => {
            if !flip(&mut c.bytes, p) {
                return None;
            }
            what = "wire byte";
        }
        MutKind::ParentMaxCut => {
            let Prior::Single(a) = orig.parent else { return None };
            let mc = a.max_cut.get();
            let n = if p.bit & 1 == 0 || mc == 0 { mc + 1 } else { mc - 1 };
            c.parent = Prior::Single(Address { id: a.id, max_cut: MaxCut::new(n) });
            what = "parent max_cut";
        }
        MutKind::Priority => {
            c.priority = match (&orig.priority, p.bit % 3) {
                (Priority::Basic(n), 0) => Priority::Basic(n + 1),
                (Priority::Basic(_), 1) => Priority::Finalize,
                (Priority::Basic(n), _) => Priority::Basic(n.wrapping_sub(1)),
                (Priority::Init, _) => Priority::Basic(0),
                _ => return None,
            };
            what = "priority";
        }
        MutKind::PolicyField => {
            c.policy = match &orig.policy {
                Some(_) => None,
                None => Some(vec![p.bit; 8]),
            };
            what = "policy field";
        }
        MutKind::TrailingByte => {
            c.bytes.push(p.bit);
            what = "trailing byte";
        }
        MutKind::WireLenPrefix => {
            let spans = wire_len_prefixes(&orig.bytes)?;
            let (start, len) = spans[vcommon::idx(p.pick, spans.len())];
            let extra = 1 + usize::from(p.bit) % 3;
            c.bytes = pad_varint(&orig.bytes, start, len, extra)?;
            // it must still decode to the same four fields
            let d2: VmProtocolData<'_> = postcard::from_bytes(&c.bytes).ok()?;
            if d2.author_id != author || d2.kind != name || d2.serialized_fields != fields || d2.signature != sig {
                return None;
            }
            what = "wire length prefix";
        }
    }
    if c == *orig {
        return None;
    }
    Some((c, what))
}


// ---------------------------------------------------------------------------------------------
// byte-different encodings of the same values (written from the postcard wire specification, independent of the
// decoders under test): LEB128 varints may carry redundant continuation bytes (`02` == `82 00` == `82 80 00`)

/// Length of the LEB128 varint starting at `at` (at most 10 bytes), None when it runs off the input.
fn varint_len(b: &[u8], at: usize) -> Option<usize> {
    for n in 1..=10 {
        if *b.get(at + n - 1)? & 0x80 == 0 {
            return Some(n);
        }
    }
    None
}

fn varint_val(b: &[u8], at: usize, len: usize) -> u64 {
    b[at..at + len].iter().enumerate().fold(0u64, |v, (i, x)| v | (u64::from(x & 0x7f) << (7 * i).min(63)))
}

/// The varint at `start..start+len` with `extra` redundant bytes: the same value in `len + extra` bytes.
/// None when that would exceed the 10 bytes a 64-bit varint may have.
fn pad_varint(b: &[u8], start: usize, len: usize, extra: usize) -> Option<Vec<u8>> {
    if extra == 0 || len + extra > 10 {
        return None;
    }
    let mut out = b[..start + len].to_vec();
    out[start + len - 1] |= 0x80;
    out.extend(std::iter::repeat_n(0x80u8, extra - 1));
    out.push(0);
    out.extend_from_slice(&b[start + len..]);
    Some(out)
}

/// (start, len, what) of every varint inside a serialized command struct, found by walking the payload along the
/// field types of the command (fields in definition order; int / enum = zigzag varint, text / bytes = varint length +
/// content, bool / option tag / result tag = 1 byte, id = 1 + 32 bytes).
fn payload_varints(m: &Machine, name: &Identifier, b: &[u8]) -> Option<Vec<(usize, usize, &'static str)>> {
    fn walk(m: &Machine, t: &TypeKind, b: &[u8], pos: &mut usize, out: &mut Vec<(usize, usize, &'static str)>) -> Option<()> {
        match t {
            TypeKind::Unit => {}
            TypeKind::Int | TypeKind::Enum(_) => {
                let n = varint_len(b, *pos)?;
                out.push((*pos, n, if matches!(t, TypeKind::Int) { "int" } else { "enum" }));
                *pos += n;
            }
            TypeKind::String | TypeKind::Bytes => {
                let n = varint_len(b, *pos)?;
                out.push((*pos, n, if matches!(t, TypeKind::String) { "text length" } else { "bytes length" }));
                *pos += n + usize::try_from(varint_val(b, *pos, n)).ok()?;
            }
            TypeKind::Bool => *pos += 1,
            TypeKind::Id => *pos += 33,
            TypeKind::Struct(n) => {
                for f in &m.struct_defs.get(n)?.items {
                    walk(m, &f.ty, b, pos, out)?;
                }
            }
            TypeKind::Optional(i) => {
                let tag = *b.get(*pos)?;
                *pos += 1;
                match tag {
                    0 => {}
                    1 => walk(m, i, b, pos, out)?,
                    _ => return None,
                }
            }
            TypeKind::Result(r) => {
                let tag = *b.get(*pos)?;
                *pos += 1;
                match tag {
                    0 => walk(m, &r.ok, b, pos, out)?,
                    1 => walk(m, &r.err, b, pos, out)?,
                    _ => return None,
                }
            }
            TypeKind::Never => return None,
        }
        (*pos <= b.len()).then_some(())
    }
    let mut out = Vec::new();
    let mut pos = 0;
    walk(m, &TypeKind::Struct(name.clone()), b, &mut pos, &mut out)?;
    (pos == b.len()).then_some(out)
}

/// The three length prefixes of a serialized `VmProtocolData` (command name, payload, signature), located from the
/// end of the encoding (author id, then three length-prefixed byte strings). None if the bytes are not laid out so.
fn wire_len_prefixes(bytes: &[u8]) -> Option<Vec<(usize, usize)>> {
    let data: VmProtocolData<'_> = postcard::from_bytes(bytes).ok()?;
    let lens = [data.kind.as_str().len(), data.serialized_fields.len(), data.signature.len()];
    let vlen = |n: usize| {
        let mut k = 1;
        let mut n = n >> 7;
        while n > 0 {
            k += 1;
            n >>= 7;
        }
        k
    };
    let mut end = bytes.len();
    let mut out = Vec::new();
    for n in lens.iter().rev() {
        let start = end.checked_sub(n + vlen(*n))?;
        let l = varint_len(bytes, start)?;
        if l != vlen(*n) || usize::try_from(varint_val(bytes, start, l)).ok()? != *n {
            return None;
        }
        out.push((start, l));
        end = start;
    }
    out.reverse();
    Some(out)
}

/// Every command that differs from `orig` only in how the payload's values are written: for each varint of the
/// payload one redundant byte, plus 2 extra / the maximal padding (by `p`); the payload's length prefix in the wire
/// encoding follows (re-encoded). Id, parent, priority, author, name, signature are untouched.
fn payload_reencodings(m: &Machine, orig: &OwnedCmd, p: &MutParam) -> Vec<(OwnedCmd, bool, &'static str, String)> {
    let Ok(data) = postcard::from_bytes::<VmProtocolData<'_>>(&orig.bytes) else { return Vec::new() };
    let fields = data.serialized_fields;
    let Some(spans) = payload_varints(m, &data.kind, fields) else { return Vec::new() };
    let Ok(decoded) = m.deserialize_struct(data.kind.clone(), fields) else { return Vec::new() };
    let mut out = Vec::new();
    for (si, (start, len, what)) in spans.iter().enumerate() {
        let max = 10 - len;
        let second = if (usize::from(p.bit) + si) % 2 == 0 { 2 } else { max };
        let mut extras = vec![1usize];
        if second > 1 && second <= max {
            extras.push(second);
        }
        for extra in extras {
            let Some(x) = pad_varint(fields, *start, *len, extra) else { continue };
            // for the record only (the bytes differ from the signed ones either way): does the VM read the same values?
            let same = m.deserialize_struct(data.kind.clone(), &x).ok().as_ref() == Some(&decoded);
            let mut c = orig.clone();
            c.bytes = reencode(data.author_id, &data.kind, &x, data.signature);
            if c != *orig {
                out.push((c, same, *what, format!("{what} varint at payload offset {start} ({len} byte(s)) padded with {extra} redundant byte(s); decodes to the same values: {same}")));
            }
        }
    }
    out
}

// ---------------------------------------------------------------------------------------------

enum Before {
    NoGraph,
    Graph(Snapshot),
}

fn observe(b: &mut Client<Eng>, g: GraphId) -> Result<Before, String> {
    match b.provider().get_storage(g) {
        Err(StorageError::NoSuchStorage) => return Ok(Before::NoGraph),
        Err(e) => return Err(format!("get_storage: {e}")),
        Ok(_) => {}
    }
    Ok(Before::Graph(rt::snapshot(b, g, FACT_NAMES)?.0))
}

fn same(a: &Before, b: &Before) -> bool {
    match (a, b) {
        (Before::NoGraph, Before::NoGraph) => true,
        (Before::Graph(x), Before::Graph(y)) => x == y,
        _ => false,
    }
}

pub fn check_case(m: &Machine, case: &Case, info: &mut CaseInfo) -> CheckResult {
    let mut bufs: Box<Buffers> = Box::new(Buffers::new());
    let seed = u64::from(case.seed) << 8;
    let mut a = device(m, seed | 1).map_err(|e| f("harness: device setup failed", e))?;
    let mut c = device(m, seed | 2).map_err(|e| f("harness: device setup failed", e))?;
    let mut b = device(m, seed | 3).map_err(|e| f("harness: device setup failed", e))?;
    let honest = |what: &str, e: String| f("honest history could not be built", format!("{what}: {e}"));

    // ---- honest history on A and C
    let mut sink = RecSink::new();
    let g = a
        .client
        .new_graph(&[0u8], act(ident!("init"), vec![Value::Int(1), Value::Bytes(a.ident_pk.clone()), Value::Bytes(a.sign_pk.clone())]), &mut sink)
        .map_err(|e| honest("new_graph", e.to_string()))?;
    a.client
        .action(g, &mut sink, act(ident!("add_device_keys"), vec![Value::Bytes(a.ident_pk.clone()), Value::Bytes(a.sign_pk.clone())]), &mut bufs, MemSpill::new)
        .map_err(|e| honest("A add_device_keys", e.to_string()))?;
    rt::transfer(&mut a.client, &mut c.client, g, &mut sink, &mut bufs).map_err(|e| honest("A->C", e))?;
    c.client
        .action(g, &mut sink, act(ident!("add_device_keys"), vec![Value::Bytes(c.ident_pk.clone()), Value::Bytes(c.sign_pk.clone())]), &mut bufs, MemSpill::new)
        .map_err(|e| honest("C add_device_keys", e.to_string()))?;
    rt::transfer(&mut c.client, &mut a.client, g, &mut sink, &mut bufs).map_err(|e| honest("C->A", e))?;
    for (i, s) in case.steps.iter().enumerate() {
        let d = if s.dev_c { &mut c } else { &mut a };
        let (name, args) = match s.cmd {
            0 => (ident!("put"), vec![Value::Int(i64::from(s.k)), Value::Int(i64::from(s.v))]),
            1 => (ident!("set2"), vec![Value::Int(i64::from(s.k)), Value::Int(i64::from(s.v))]),
            2 => (ident!("two"), vec![Value::Int(i64::from(s.k)), Value::Int(i64::from(s.v))]),
            _ => (ident!("note"), note_args(s)),
        };
        d.client
            .action(g, &mut sink, act(name, args), &mut bufs, MemSpill::new)
            .map_err(|e| honest(&format!("step {i} {s:?}"), e.to_string()))?;
        if s.sync_after {
            rt::transfer(&mut c.client, &mut a.client, g, &mut sink, &mut bufs).map_err(|e| honest("sync C->A", e))?;
            rt::transfer(&mut a.client, &mut c.client, g, &mut sink, &mut bufs).map_err(|e| honest("sync A->C", e))?;
        }
    }
    rt::transfer(&mut c.client, &mut a.client, g, &mut sink, &mut bufs).map_err(|e| honest("final C->A", e))?;
    let (a_snap, a_view) = rt::snapshot(&mut a.client, g, FACT_NAMES).map_err(|e| honest("snapshot A", e))?;
    let wire = a_view.topo();
    let merges = wire.iter().filter(|w| w.is_merge()).count();
    if merges > 0 {
        info.label("history_with_merge");
    }
    if a_snap.heads.len() > 1 {
        info.label("history_multi_head");
    }
    let devices = [a.id, c.id, b.id];

    // ---- deliver to B: every command first mutated (must be rejected), then unmodified (must be accepted)
    let mut deferred: Option<Failure> = None;
    let mut rejected_covered = 0u32;
    let mut seen: std::collections::BTreeSet<String> = Default::default();
    for (i, cmd) in wire.iter().enumerate() {
        let before = observe(&mut b.client, g).map_err(|e| f("harness: cannot observe replica B", e))?;
        let others: Vec<Address> = wire[..i].iter().map(|w| Address { id: w.id, max_cut: MaxCut::new(w.max_cut()) }).collect();
        if !cmd.is_merge() {
            if let Ok(d) = postcard::from_bytes::<VmProtocolData<'_>>(&cmd.bytes) {
                info.label(format!("delivered:{}", d.kind));
            }
            // the single mutations named by the statement, then the byte-different encodings of the same payload values
            let mut attempts: Vec<(OwnedCmd, &'static str, String)> = Vec::new();
            for (j, kind) in COVERED.iter().copied().enumerate() {
                let p = &case.params[(i + j) % case.params.len()];
                if let Some((mutated, what)) = mutate(cmd, kind, p, &others, &devices) {
                    attempts.push((mutated, what, format!("mutation {kind:?} ({what}) param {p:?}")));
                }
            }
            let p = &case.params[i % case.params.len()];
            let re = payload_reencodings(m, cmd, p);
            if re.is_empty() {
                info.label("no_payload_reencoding");
            }
            for (mutated, same, which, how) in re {
                info.label(if same { "payload_reencoding:decodes_to_same_values" } else { "payload_reencoding:not_decoded_the_same" });
                info.label(format!("padded:{which}"));
                attempts.push((mutated, "payload encoding (padded varint)", how));
            }
            for (mutated, what, how) in attempts {
                let covered = true;
                let mut sink = RecSink::new();
                let mut trx = b.client.transaction(g);
                let bc = &mut b.client;
                let bufs_ref = &mut *bufs;
                let sink_ref = &mut sink;
                let res = vcommon::catch(move || {
                    let r = bc.add_commands(&mut trx, sink_ref, std::slice::from_ref(&mutated), bufs_ref, MemSpill::new);
                    match r {
                        Ok(n) if n > 0 => {
                            // it was taken: see whether it also commits
                            let committed = bc.commit(trx, sink_ref, bufs_ref, MemSpill::new);
                            Ok((n, committed.is_ok()))
                        }
                        Ok(n) => Ok((n, false)),
                        Err(e) => Err(e.to_string()),
                    }
                });
                let after = observe(&mut b.client, g).map_err(|e| f("replica B unreadable after a rejected command", e))?;
                let (committed, _) = sink.committed();
                let ctx = || format!("command #{i} ({:?}, id {}) {how}", cmd.priority, cmd.id);
                match res {
                    Err((msg, loc)) => {
                        // a panic is not a rejection; state must still be unchanged
                        ensure!(same(&before, &after), "replica state changed by a command that made it panic", "{}: {msg}", ctx());
                        // file without line number, relative to the repository root wherever it is checked out
                        let file = loc.rsplit_once(':').map(|x| x.0).unwrap_or(&loc);
                        let file = file.find("crates/").map(|i| &file[i..]).unwrap_or(file);
                        let fl = Failure::new(format!("replica panics on a mutated {what}: {file}"), format!("{}: panic `{msg}` at {loc}", ctx()));
                        if covered {
                            if deferred.is_none() {
                                deferred = Some(fl);
                            }
                        } else {
                            info.label(format!("uncovered:{what}:panic"));
                        }
                    }
                    Ok(Ok((n, did_commit))) => {
                        if covered && n > 0 {
                            fail!(format!("command with mutated {what} was accepted"), "{} add_commands returned Ok({n}), commit ok={did_commit}; state changed={}", ctx(), !same(&before, &after));
                        }
                        if covered {
                            // Ok(0): treated as already present / skipped; nothing may have changed
                            ensure!(same(&before, &after) && committed.is_empty(), format!("command with mutated {what} changed the replica although add_commands reported 0 added"), "{}", ctx());
                            info.label(format!("covered:{what}:skipped_as_present"));
                        } else {
                            info.label(format!("uncovered:{what}:{}", if n > 0 { "accepted" } else { "skipped" }));
                        }
                    }
                    Ok(Err(e)) => {
                        ensure!(same(&before, &after), format!("rejected command (mutated {what}) changed heads, facts or stored commands"), "{} error={e}", ctx());
                        ensure!(committed.is_empty(), format!("rejected command (mutated {what}) committed effects"), "{} error={e} effects={committed:?}", ctx());
                        if covered {
                            rejected_covered += 1;
                            seen.insert(format!("rejected:{what}:{}", if i == 0 { "init" } else if e.contains("no such parent") { "no_such_parent" } else { "policy" }));
                        } else {
                            info.label(format!("uncovered:{what}:rejected"));
                        }
                    }
                }
            }
        }
        // positive control: the unmodified command is accepted
        let mut sink = RecSink::new();
        let n = rt::deliver(&mut b.client, g, std::slice::from_ref(cmd), &mut sink, &mut bufs)
            .map_err(|e| f("unmodified honest command was rejected", format!("command #{i} {:?} id {}: {e}", cmd.priority, cmd.id)))?;
        ensure!(n == 1, "unmodified honest command was not added", "command #{i}: add_commands returned {n}");
        let after = observe(&mut b.client, g).map_err(|e| f("replica B unreadable after an accepted command", e))?;
        let Before::Graph(after) = after else { fail!("graph missing after the init command was accepted", "command #{i}") };
        let mut want = match &before {
            Before::NoGraph => Default::default(),
            Before::Graph(s) => s.ids.clone(),
        };
        want.insert(cmd.id);
        ensure!(after.ids == want, "accepting one command changed the stored command set by something else", "command #{i}: got {} ids want {}", after.ids.len(), want.len());
    }
    // B now equals A
    let (b_snap, _) = rt::snapshot(&mut b.client, g, FACT_NAMES).map_err(|e| f("harness: snapshot B", e))?;
    ensure!(b_snap.ids == a_snap.ids, "replica B's command set differs from A's after full delivery", "A={} B={}", a_snap.ids.len(), b_snap.ids.len());
    let hb: Vec<CmdId> = b_snap.heads.iter().map(|h| h.0).collect();
    let ha: Vec<CmdId> = a_snap.heads.iter().map(|h| h.0).collect();
    ensure!(ha == hb, "replica B's heads differ from A's after full delivery", "A={ha:?} B={hb:?}");
    ensure!(b_snap.facts == a_snap.facts, "replica B's facts differ from A's after full delivery", "A={:?}\nB={:?}", a_snap.facts, b_snap.facts);

    // fields the statement does not name: one probe per case on a second replica, labels only
    {
        let mut b2 = device(m, seed | 4).map_err(|e| f("harness: device setup failed", e))?;
        let nonmerge: Vec<usize> = (0..wire.len()).filter(|i| !wire[*i].is_merge()).collect();
        let at = nonmerge[vcommon::idx(case.probe.0, nonmerge.len())];
        let kind = UNCOVERED[usize::from(case.probe.1) % UNCOVERED.len()];
        let mut sink = RecSink::new();
        for cmd in &wire[..at] {
            rt::deliver(&mut b2.client, g, std::slice::from_ref(cmd), &mut sink, &mut bufs).map_err(|e| f("unmodified honest command was rejected", format!("second replica: {e}")))?;
        }
        let others: Vec<Address> = wire[..at].iter().map(|w| Address { id: w.id, max_cut: MaxCut::new(w.max_cut()) }).collect();
        if let Some((mutated, what)) = mutate(&wire[at], kind, &case.params[0], &others, &devices) {
            let before = observe(&mut b2.client, g).map_err(|e| f("harness: cannot observe replica B2", e))?;
            let mut sink = RecSink::new();
            let bc = &mut b2.client;
            let bufs_ref = &mut *bufs;
            let sink_ref = &mut sink;
            let res = vcommon::catch(move || rt::deliver(bc, g, std::slice::from_ref(&mutated), sink_ref, bufs_ref).map_err(|e| e.to_string()));
            let after = observe(&mut b2.client, g).map_err(|e| f("replica unreadable after a probe", e))?;
            let kindname = if at == 0 { "init" } else { "basic" };
            match res {
                Err(_) => info.label(format!("uncovered:{what}:{kindname}:panic")),
                Ok(Ok(n)) if n > 0 => info.label(format!("uncovered:{what}:{kindname}:accepted")),
                Ok(Ok(_)) => info.label(format!("uncovered:{what}:{kindname}:skipped")),
                Ok(Err(e)) => {
                    ensure!(same(&before, &after), format!("rejected command (mutated {what}) changed heads, facts or stored commands"), "second replica, command #{at}: {e}");
                    ensure!(sink.committed().0.is_empty(), format!("rejected command (mutated {what}) committed effects"), "second replica, command #{at}: {e}");
                    info.label(format!("uncovered:{what}:{kindname}:rejected"));
                }
            }
        }
    }

    // observational probe (not part of the statement): a merge command with a forged id
    if let Some(mc) = wire.iter().rev().find(|w| w.is_merge()) {
        let mut forged = mc.clone();
        forged.id = flip_id(mc.id, &case.params[0]);
        let mut sink = RecSink::new();
        match rt::deliver(&mut b.client, g, std::slice::from_ref(&forged), &mut sink, &mut bufs) {
            Ok(n) if n > 0 => info.label("observation:merge_with_forged_id:accepted"),
            Ok(_) => info.label("observation:merge_with_forged_id:skipped"),
            Err(_) => info.label("observation:merge_with_forged_id:rejected"),
        }
    }
    for l in seen {
        info.label(l);
    }
    let both_authors = case.steps.iter().any(|s| s.dev_c) && case.steps.iter().any(|s| !s.dev_c);
    finish_case(info, deferred, rejected_covered, both_authors)
}

fn finish_case(info: &mut CaseInfo, deferred: Option<Failure>, rejected_covered: u32, both_authors: bool) -> CheckResult {
    if rejected_covered >= 20 && both_authors {
        info.nontrivial();
    }
    match deferred {
        Some(fl) => Err(fl),
        None => Ok(()),
    }
}

pub fn run(ctx: &Ctx) -> ! {
    let mut rep = Report::new(ctx, "exploration");
    rep.assume("signing policy modelled on aranya-model's ffi-policy.md (crypto/envelope/device/idam/perspective FFIs, MemStore key stores, DefaultEngine over a seeded RNG so cases replay); commands Init/AddDeviceKeys are self-signed with the key they carry, Put/Set2 with the author's registered key");
    rep.assume("mutations named by the statement (payload, command name, author, signature, id, parent id, any single wire bit) must be rejected; parent max_cut, priority, the policy field of a non-init command and appended trailing bytes are not named by the statement: what happens is recorded as labels only");
    rep.assume("the payload is the byte string that was signed: a payload rewritten to other bytes that decode to the same field values (padded varints) is a changed payload and must be rejected; padding the length prefixes of the wire encoding around name / payload / signature leaves every signed item byte-identical, is not named by the statement and is recorded as a label only (uncovered:wire length prefix:*; the unchanged tree accepts it)");
    rep.assume("a rejected transaction is dropped (never committed), as a syncer does on error");
    rep.assume("merge commands carry no signature and are delivered unmodified; a forged merge id is probed once per case for the record (label observation:merge_with_forged_id:*) and never counted as a violation");
    let m = machine();
    let n = ctx.pick(2000, 60_000);
    rep.explore(
        "mutated_delivery",
        "honest history by two registered devices (1-8 actions of 1-2 commands, generated sync points, so linear runs, branches and merge commands), \
         captured as wire commands from A's storage and delivered one by one to a fresh replica B: first with each of 7 statement-covered single mutations \
         (payload bit, command name, author id, signature bit, command id bit, parent id -> other stored command or bit flip, arbitrary wire bit), with every byte-different \
         encoding of the same payload values of the class padded varint (each int / enum / text-length / bytes-length varint of the payload, located by a schema walk, with 1 and with 2 or \
         the maximal number of redundant continuation bytes; the payload's wire length prefix follows; id, parent, author, name, signature untouched) and 5 uncovered ones, each in its own \
         transaction, then unmodified; commands: Init, AddDeviceKeys (bytes), Put/Set2 (two small ints), Note (int of 1..10 encoded bytes, text and bytes up to 299 bytes, option, enum, nested struct); oracle: mutated => add_commands Err and heads / stored ids / fact scan unchanged and no committed effects, unmodified => accepted, \
         B == A at the end; non-trivial = both devices authored commands after registration and >=20 covered mutations were rejected in the case",
        || case(8),
        n,
        |c: &Case, info| check_case(&m, c, info),
    );
    rep.finish()
}
