mod c07;
mod c29;
mod c35;
mod rt;

fn main() {
    let ctx = vcommon::Ctx::from_args();
    ctx.watchdog(ctx.pick(900, 7200));
    match ctx.prop.as_str() {
        "C07" => c07::run(&ctx),
        "C29" => c29::run(&ctx),
        "C35" => c35::run(&ctx),
        p => {
            println!("INCONCLUSIVE vh-vmrt does not serve {p}");
            std::process::exit(2);
        }
    }
}
