//! Shared plumbing for the VmPolicy-on-runtime harnesses: policy compilation, clients,
//! recording sink, graph walk, fact scan, command transfer between replicas.
#![allow(dead_code)]

use std::collections::{BTreeMap, BTreeSet};

use aranya_policy_compiler::Compiler;
use aranya_policy_lang::lang::parse_policy_str;
use aranya_policy_vm::{Machine, ast::Version, ffi::ModuleSchema};
use aranya_runtime::{
    Address, ClientError, ClientState, CmdId, Command, GraphId, Location, MemSpill, PolicyError, PolicyStore, Prior,
    Priority, Query as _, RuntimeBuffers, Segment as _, Sink, Storage, StorageProvider as _, VmEffect, VmPolicy,
    storage::linear::testing::MemStorageProvider,
};

/// Policy store holding exactly one `VmPolicy`.
pub struct Store<E> {
    pub policy: VmPolicy<E>,
}

impl<E: aranya_crypto::Engine> PolicyStore for Store<E> {
    type Policy = VmPolicy<E>;
    type Effect = VmEffect;

    fn add_policy(&mut self, _policy: &[u8]) -> Result<aranya_runtime::PolicyId, PolicyError> {
        Ok(aranya_runtime::PolicyId::new(0))
    }

    fn get_policy(&self, _id: aranya_runtime::PolicyId) -> Result<&Self::Policy, PolicyError> {
        Ok(&self.policy)
    }
}

pub type Client<E> = ClientState<Store<E>, MemStorageProvider>;
pub type Buffers = RuntimeBuffers<<MemStorageProvider as aranya_runtime::StorageProvider>::Segment>;

pub fn compile(text: &str, schemas: &[ModuleSchema<'static>]) -> Result<Machine, String> {
    let ast = parse_policy_str(text, Version::V2).map_err(|e| format!("parse: {e}"))?;
    let module = Compiler::new(&ast).ffi_modules(schemas).compile().map_err(|e| format!("compile: {e}"))?;
    Machine::from_module(module).map_err(|e| format!("machine: {e}"))
}

// ---------------------------------------------------------------------------------------------
// sink

#[derive(Clone, Debug, PartialEq, Eq)]
pub enum Ev {
    Begin,
    Eff(VmEffect),
    Rollback,
    Commit,
}

#[derive(Default, Debug)]
pub struct RecSink {
    pub events: Vec<Ev>,
}

impl Sink<VmEffect> for RecSink {
    fn begin(&mut self) {
        self.events.push(Ev::Begin);
    }
    fn consume(&mut self, effect: VmEffect) {
        self.events.push(Ev::Eff(effect));
    }
    fn rollback(&mut self) {
        self.events.push(Ev::Rollback);
    }
    fn commit(&mut self) {
        self.events.push(Ev::Commit);
    }
}

impl RecSink {
    pub fn new() -> Self {
        Self::default()
    }

    /// Effects that were consumed inside a begin..commit bracket (in order). Effects followed by
    /// a rollback, or never closed by a commit, are not committed. Effects consumed outside any
    /// bracket are reported through `stray`.
    pub fn committed(&self) -> (Vec<VmEffect>, usize) {
        let mut out = Vec::new();
        let mut pending: Vec<VmEffect> = Vec::new();
        let mut open = false;
        let mut stray = 0;
        for e in &self.events {
            match e {
                Ev::Begin => {
                    // a nested begin discards nothing: treat as continuing the same bracket
                    open = true;
                }
                Ev::Eff(x) => {
                    if open {
                        pending.push(x.clone());
                    } else {
                        stray += 1;
                    }
                }
                Ev::Rollback => {
                    pending.clear();
                    open = false;
                }
                Ev::Commit => {
                    out.append(&mut pending);
                    open = false;
                }
            }
        }
        (out, stray)
    }

    pub fn count(&self, what: &Ev) -> usize {
        self.events.iter().filter(|e| *e == what).count()
    }

    pub fn saw_rollback(&self) -> bool {
        self.events.iter().any(|e| matches!(e, Ev::Rollback))
    }

    pub fn saw_commit(&self) -> bool {
        self.events.iter().any(|e| matches!(e, Ev::Commit))
    }
}

// ---------------------------------------------------------------------------------------------
// owned wire command

#[derive(Clone, Debug, PartialEq, Eq)]
pub struct OwnedCmd {
    pub id: CmdId,
    pub parent: Prior<Address>,
    pub priority: Priority,
    pub policy: Option<Vec<u8>>,
    pub bytes: Vec<u8>,
}

impl Command for OwnedCmd {
    fn priority(&self) -> Priority {
        self.priority.clone()
    }
    fn id(&self) -> CmdId {
        self.id
    }
    fn parent(&self) -> Prior<Address> {
        self.parent
    }
    fn policy(&self) -> Option<&[u8]> {
        self.policy.as_deref()
    }
    fn bytes(&self) -> &[u8] {
        &self.bytes
    }
}

impl OwnedCmd {
    pub fn from_command(c: &impl Command) -> Self {
        OwnedCmd {
            id: c.id(),
            parent: c.parent(),
            priority: c.priority(),
            policy: c.policy().map(|p| p.to_vec()),
            bytes: c.bytes().to_vec(),
        }
    }

    pub fn max_cut(&self) -> u64 {
        match self.parent {
            Prior::None => 0,
            Prior::Single(p) => p.max_cut.get() + 1,
            Prior::Merge(l, r) => l.max_cut.get().max(r.max_cut.get()) + 1,
        }
    }

    pub fn is_merge(&self) -> bool {
        matches!(self.parent, Prior::Merge(..))
    }
}

// ---------------------------------------------------------------------------------------------
// graph walk

#[derive(Clone, Debug)]
pub struct GraphView {
    /// Heads as (id, segment, max_cut).
    pub heads: Vec<(CmdId, u64, u64)>,
    /// Every command reachable from the heads, keyed by id, with its location.
    pub cmds: BTreeMap<CmdId, (OwnedCmd, Location)>,
}

impl GraphView {
    pub fn ids(&self) -> BTreeSet<CmdId> {
        self.cmds.keys().copied().collect()
    }

    /// Commands ordered parents-first (max_cut, then id).
    pub fn topo(&self) -> Vec<OwnedCmd> {
        let mut v: Vec<OwnedCmd> = self.cmds.values().map(|c| c.0.clone()).collect();
        v.sort_by_key(|c| (c.max_cut(), c.id));
        v
    }

    /// All proper ancestors of `id` by following the parent ids of walked commands.
    /// `Err(missing)` if a parent id is not among the walked commands.
    pub fn ancestors(&self, id: CmdId) -> Result<BTreeSet<CmdId>, CmdId> {
        let mut seen = BTreeSet::new();
        let mut stack = vec![id];
        while let Some(x) = stack.pop() {
            let Some((c, _)) = self.cmds.get(&x) else {
                return Err(x);
            };
            for p in c.parent {
                if seen.insert(p.id) {
                    stack.push(p.id);
                }
            }
        }
        Ok(seen)
    }
}

/// Walks the committed graph from the committed heads through `get_segment` / `Segment::prior`.
pub fn walk<S: Storage>(storage: &S) -> Result<GraphView, String> {
    let heads: Vec<_> = storage.get_heads().map_err(|e| format!("get_heads: {e}"))?.iter().collect();
    let mut entry: BTreeMap<u64, u64> = BTreeMap::new(); // segment -> highest reachable max_cut
    let mut work: Vec<Location> = heads.iter().map(|h| h.location()).collect();
    while let Some(loc) = work.pop() {
        let seg_idx = loc.segment.get();
        let mc = loc.max_cut.get();
        match entry.get(&seg_idx) {
            Some(&old) => {
                if mc > old {
                    entry.insert(seg_idx, mc);
                }
                continue;
            }
            None => {
                entry.insert(seg_idx, mc);
            }
        }
        let seg = storage.get_segment(loc).map_err(|e| format!("get_segment({loc}): {e}"))?;
        for p in seg.prior() {
            work.push(p);
        }
    }
    let mut cmds = BTreeMap::new();
    for (&seg_idx, &top) in &entry {
        let probe = Location::new(aranya_runtime::SegmentIndex::new(seg_idx), aranya_runtime::MaxCut::new(top));
        let seg = storage.get_segment(probe).map_err(|e| format!("get_segment({probe}): {e}"))?;
        let first = seg.first_location();
        let mut mc = first.max_cut.get();
        while mc <= top {
            let loc = Location::new(first.segment, aranya_runtime::MaxCut::new(mc));
            let Some(c) = seg.get_command(loc) else {
                return Err(format!("segment {seg_idx} has no command at max_cut {mc} (entry {top})"));
            };
            let oc = OwnedCmd::from_command(&c);
            if oc.max_cut() != mc {
                return Err(format!("command {} stored at max_cut {mc} but its parents say {}", oc.id, oc.max_cut()));
            }
            if let Some((prev, _)) = cmds.insert(oc.id, (oc.clone(), loc)) {
                if prev != oc {
                    return Err(format!("command id {} stored twice with different content", oc.id));
                }
            }
            mc += 1;
        }
    }
    Ok(GraphView {
        heads: heads.iter().map(|h| (h.id, h.segment.get(), h.max_cut.get())).collect(),
        cmds,
    })
}

// ---------------------------------------------------------------------------------------------
// fact scan

/// (fact name, key parts, value bytes) for every fact under each of `names`, in storage order.
pub type FactRows = Vec<(String, Vec<Vec<u8>>, Vec<u8>)>;

pub fn scan_facts<S: Storage>(storage: &S, names: &[&str]) -> Result<FactRows, String> {
    let idx = storage.fact_cache().map_err(|e| format!("fact_cache: {e}"))?;
    let mut out = Vec::new();
    for n in names {
        let it = idx.query_prefix(n, &[]).map_err(|e| format!("query_prefix({n}): {e}"))?;
        for f in it {
            let f = f.map_err(|e| format!("fact iteration({n}): {e}"))?;
            out.push((n.to_string(), f.key.iter().map(|k| k.to_vec()).collect(), f.value.to_vec()));
        }
    }
    Ok(out)
}

/// Snapshot of everything C07/C35 compare before/after: heads, committed ids, facts.
#[derive(Clone, Debug, PartialEq, Eq)]
pub struct Snapshot {
    pub heads: Vec<(CmdId, u64, u64)>,
    pub ids: BTreeSet<CmdId>,
    pub facts: FactRows,
}

pub fn snapshot<E: aranya_crypto::Engine>(c: &mut Client<E>, g: GraphId, names: &[&str]) -> Result<(Snapshot, GraphView), String> {
    let st = c.provider().get_storage(g).map_err(|e| format!("get_storage: {e}"))?;
    let view = walk(&*st)?;
    let facts = scan_facts(&*st, names)?;
    Ok((
        Snapshot {
            heads: view.heads.clone(),
            ids: view.ids(),
            facts,
        },
        view,
    ))
}

// ---------------------------------------------------------------------------------------------
// transfer

/// Delivers every command of `src`'s graph that `dst` lacks, parents first, in one transaction.
/// Returns the number of commands the destination reported as added.
pub fn transfer<E: aranya_crypto::Engine>(
    src: &mut Client<E>,
    dst: &mut Client<E>,
    g: GraphId,
    sink: &mut RecSink,
    bufs: &mut Buffers,
) -> Result<usize, String> {
    let cmds = {
        let st = src.provider().get_storage(g).map_err(|e| format!("src get_storage: {e}"))?;
        walk(&*st)?.topo()
    };
    deliver(dst, g, &cmds, sink, bufs).map_err(|e| format!("deliver: {e}"))
}

pub fn deliver<E: aranya_crypto::Engine>(
    dst: &mut Client<E>,
    g: GraphId,
    cmds: &[OwnedCmd],
    sink: &mut RecSink,
    bufs: &mut Buffers,
) -> Result<usize, ClientError> {
    let mut trx = dst.transaction(g);
    let n = dst.add_commands(&mut trx, sink, cmds, bufs, MemSpill::new)?;
    dst.commit(trx, sink, bufs, MemSpill::new)?;
    Ok(n)
}

// ---------------------------------------------------------------------------------------------
// deterministic CSPRNG stand-in (the harness needs reproducible cases, not secrecy)

pub struct SeedRng(std::sync::atomic::AtomicU64);

impl SeedRng {
    pub fn new(seed: u64) -> Self {
        Self(std::sync::atomic::AtomicU64::new(seed ^ 0x9E37_79B9_7F4A_7C15))
    }
    fn next(&self) -> u64 {
        let s = self.0.fetch_add(0x9E37_79B9_7F4A_7C15, std::sync::atomic::Ordering::Relaxed).wrapping_add(0x9E37_79B9_7F4A_7C15);
        let mut z = s;
        z = (z ^ (z >> 30)).wrapping_mul(0xBF58_476D_1CE4_E5B9);
        z = (z ^ (z >> 27)).wrapping_mul(0x94D0_49BB_1331_11EB);
        z ^ (z >> 31)
    }
}

impl aranya_crypto::Csprng for SeedRng {
    fn fill_bytes(&self, dst: &mut [u8]) {
        for c in dst.chunks_mut(8) {
            let v = self.next().to_le_bytes();
            c.copy_from_slice(&v[..c.len()]);
        }
    }
}

pub type Eng = aranya_crypto::default::DefaultEngine<SeedRng>;

pub fn engine(seed: u64) -> Eng {
    aranya_crypto::default::DefaultEngine::from_entropy(SeedRng::new(seed)).0
}
